#!/usr/bin/env python3
"""C17 — every non-empty feature subset builds, exports exactly the selected items and behaves identically.

For each of the 31 non-empty subsets of {eval_f64, eval_i64, eval_decimal, eval_complex, eval_number}:
  * `cargo build --no-default-features --features <S>` of subset/ (a probe binary depending on /repo) must succeed;
  * the probe evaluates a generated case file; its bit-exact outcome lines must equal those of the
    all-features build for the same cases (differential);
  * nightly rustdoc JSON of /repo with exactly the features <S> (hooks off) lists the public root items,
    which must be exactly {eval_X for X in S} + {Number iff eval_number in S} + {ParseError};
  * `use string_calculator::eval_X;` must compile against the subset's rlib iff X in S (rustc --extern).
Exit 0 / 1 (VIOLATION lines) / 2 (inconclusive).
"""
import concurrent.futures as cf
import glob
import hashlib
import itertools
import json
import os
import shutil
import subprocess
import sys
import time

ROOT = os.environ.get("SCVERIF_ROOT", "/verif")
TIER = sys.argv[1] if len(sys.argv) > 1 else "quick"
SEED = int(os.environ.get("VERIF_SEED", "0"))
FEATS = ["eval_f64", "eval_i64", "eval_decimal", "eval_complex", "eval_number"]
EVNAME = {"eval_f64": "f64", "eval_i64": "i64", "eval_decimal": "decimal", "eval_complex": "complex", "eval_number": "number"}
SUBSET_DIR = os.path.join(ROOT, "subset")
TGT = os.path.join(SUBSET_DIR, "target")
ENV = dict(os.environ, CARGO_NET_OFFLINE="true", CARGO_TERM_COLOR="never")


def run(cmd, **kw):
    return subprocess.run(cmd, stdout=subprocess.PIPE, stderr=subprocess.STDOUT, text=True, errors="replace", **kw)


def subsets():
    out = []
    for r in range(1, 6):
        for c in itertools.combinations(FEATS, r):
            out.append(list(c))
    return out


def tag(s):
    return "".join("1" if f in s else "0" for f in FEATS)


def build_and_run(s, casefile):
    """returns dict(status=..., lines={idx: outcome}, log=...)"""
    tdir = os.path.join(TGT, tag(s))
    env = dict(ENV, CARGO_TARGET_DIR=tdir)
    p = run(["cargo", "build", "--release", "--no-default-features", "--features", ",".join(s)], cwd=SUBSET_DIR, env=env)
    if p.returncode != 0:
        return {"status": "build-failed", "log": p.stdout[-3000:], "lines": {}}
    exe = os.path.join(tdir, "release", "subset_probe")
    q = subprocess.run([exe, casefile], stdout=subprocess.PIPE, stderr=subprocess.PIPE, text=True, errors="replace")
    if q.returncode != 0:
        return {"status": "probe-crashed", "log": "exit %s\n%s" % (q.returncode, q.stderr[-2000:]), "lines": {}}
    lines = {}
    for l in q.stdout.split("\n"):
        if "\t" in l:
            i, o = l.split("\t", 1)
            lines[int(i)] = o
    # export probes against this subset's rlib
    deps = os.path.join(tdir, "release", "deps")
    rlibs = sorted(glob.glob(os.path.join(deps, "libstring_calculator-*.rlib")), key=os.path.getmtime)
    exports = {}
    if rlibs:
        rlib = rlibs[-1]
        pdir = os.path.join(tdir, "probes")
        os.makedirs(pdir, exist_ok=True)
        items = ["eval_f64", "eval_i64", "eval_decimal", "eval_complex", "eval_number", "Number", "ParseError"]
        for it in items:
            src = os.path.join(pdir, it + ".rs")
            with open(src, "w") as fh:
                fh.write("#![allow(unused_imports)]\nuse string_calculator::%s;\n" % it)
            r = run(["rustc", "--edition", "2021", "--crate-type", "lib", "--emit", "metadata", "-o", os.path.join(pdir, it + ".rmeta"), src, "--extern", "string_calculator=" + rlib, "-L", "dependency=" + deps])
            exports[it] = r.returncode == 0
    return {"status": "ok", "lines": lines, "exports": exports, "log": ""}


def rustdoc_items(s):
    """public root items of /repo built with exactly the features s (hooks off), via nightly rustdoc JSON"""
    tdir = os.path.join(TGT, "doc-" + tag(s))
    env = dict(ENV, CARGO_TARGET_DIR=tdir)
    p = run(["cargo", "+nightly", "rustdoc", "--offline", "--lib", "--no-default-features", "--features", ",".join(s), "--", "-Z", "unstable-options", "--output-format", "json"], cwd="/repo", env=env)
    path = os.path.join(tdir, "doc", "string_calculator.json")
    if p.returncode != 0 or not os.path.exists(path):
        return None, p.stdout[-1500:]
    j = json.load(open(path))
    root = j["index"][str(j["root"])]
    names = set()
    for i in root["inner"]["module"]["items"]:
        it = j["index"][str(i)]
        if it.get("visibility") != "public":
            continue
        inner = it["inner"]
        if "use" in inner:
            names.add(inner["use"]["name"])
        elif it.get("name"):
            names.add(it["name"])
    return names, ""


def replay(path):
    v = json.load(open(path))
    s = v["features"]
    os.makedirs(TGT, exist_ok=True)
    if "input" in v:
        casefile = os.path.join(TGT, "replay-case.txt")
        with open(casefile, "w", encoding="utf-8", newline="\n") as fh:
            fh.write("%s\t%s\t%s\n" % (v["evaluator"], v["placeholder"], json.dumps(v["input"])))
        a = build_and_run(FEATS, casefile)
        b = build_and_run(s, casefile)
        print("all features: %s   subset %s: %s" % (a["lines"].get(0), s, b["lines"].get(0) if b["status"] == "ok" else b["status"]))
        if b["status"] != "ok" or a["lines"].get(0) != b["lines"].get(0):
            print("VIOLATION property=C17 replay=%s" % path)
            return 1
        print("PASS property=C17")
        return 0
    r = build_and_run(s, os.devnull)
    names, _ = rustdoc_items(s)
    want = set(s) | {"ParseError"} | ({"Number"} if "eval_number" in s else set())
    got = {k for k, ok in r.get("exports", {}).items() if ok}
    print("subset %s: build %s, probe exports %s, rustdoc root items %s" % (s, r["status"], sorted(got), sorted(names) if names is not None else None))
    if r["status"] != "ok" or got != want or (names is not None and names != want):
        print("VIOLATION property=C17 replay=%s" % path)
        return 1
    print("PASS property=C17")
    return 0


def main():
    if len(sys.argv) > 2 and sys.argv[1] == "--replay":
        return replay(sys.argv[2])
    t0 = time.time()
    os.makedirs(TGT, exist_ok=True)
    os.makedirs(os.path.join(ROOT, "replays"), exist_ok=True)
    count = 4000 if TIER == "quick" else 200000
    casefile = os.path.join(TGT, "cases-%s-%d.txt" % (TIER, SEED))
    p = subprocess.run([os.environ["SCVERIF_REL_BIN"], "gencases", "--seed", str(SEED), "--count", str(count)], stdout=open(casefile, "w"), stderr=subprocess.PIPE, text=True, env=dict(ENV, SCVERIF_CORPUS=os.path.join(ROOT, "corpus")))
    if p.returncode != 0:
        print("INCONCLUSIVE: case generation failed\n" + p.stderr[-2000:])
        return 2
    cases = [l.rstrip("\n").split("\t", 2) for l in open(casefile, encoding="utf-8", newline="\n").read().split("\n") if l.count("\t") >= 2]
    allsub = subsets()
    full = FEATS
    violations = []
    results = {}
    with cf.ThreadPoolExecutor(max_workers=8) as ex:
        futs = {ex.submit(build_and_run, s, casefile): s for s in allsub}
        for f in cf.as_completed(futs):
            results[tag(futs[f])] = f.result()
    ref = results[tag(full)]
    if ref["status"] != "ok":
        print("INCONCLUSIVE: the all-features probe did not build/run: %s\n%s" % (ref["status"], ref["log"]))
        return 2
    # rustdoc JSON for "exports exactly" (parallel)
    docs = {}
    with cf.ThreadPoolExecutor(max_workers=8) as ex:
        futs = {ex.submit(rustdoc_items, s): s for s in allsub}
        for f in cf.as_completed(futs):
            docs[tag(futs[f])] = f.result()
    evaluations = 0
    nontrivial = set()
    samples = []
    per_subset = []
    doc_available = True
    for s in allsub:
        t = tag(s)
        r = results[t]
        entry = {"features": s, "build": r["status"]}
        if r["status"] != "ok":
            violations.append({"sig": "subset/%s/%s" % (t, r["status"]), "features": s, "detail": r["log"]})
            per_subset.append(entry)
            continue
        # behaviour: identical outcome lines for the evaluators in S
        want_evs = {EVNAME[f] for f in s}
        if "eval_number" in s:
            want_evs.add("numberfrom")
        mism = None
        n_cmp = 0
        for idx, c in enumerate(cases):
            if c[0] not in want_evs:
                if idx in r["lines"]:
                    mism = (idx, "evaluator %s answered although its feature is off" % c[0], "")
                    break
                continue
            a, b = ref["lines"].get(idx), r["lines"].get(idx)
            n_cmp += 1
            if a != b:
                mism = (idx, a, b)
                break
            if a is not None and a.startswith("ok") and sum(c[2].count(ch) for ch in "+-*/^%!(") >= 2:
                nontrivial.add((t, idx))
                if len(samples) < 12 and (idx * 31 + len(t)) % 997 == 0:
                    samples.append({"features": s, "evaluator": c[0], "input": json.loads(c[2]), "placeholder": c[1], "outcome": a})
        evaluations += n_cmp
        entry["cases_compared"] = n_cmp
        if mism:
            idx, a, b = mism
            violations.append({"sig": "subset/%s/behaviour/%s" % (t, cases[idx][0]), "features": s, "evaluator": cases[idx][0], "placeholder": cases[idx][1], "input": json.loads(cases[idx][2]), "expected": a, "observed": b})
        # exports by rustc probes
        exp_items = {"eval_f64", "eval_i64", "eval_decimal", "eval_complex", "eval_number", "Number", "ParseError"}
        want = set(s) | {"ParseError"} | ({"Number"} if "eval_number" in s else set())
        got = {k for k, v in r.get("exports", {}).items() if v}
        entry["exports_by_probe"] = sorted(got)
        if r.get("exports") and got != want:
            violations.append({"sig": "subset/%s/exports-probe" % t, "features": s, "expected": sorted(want), "observed": sorted(got)})
        names, log = docs[t]
        if names is None:
            doc_available = False
            entry["rustdoc"] = "unavailable: " + log[-200:]
        else:
            entry["public_root_items"] = sorted(names)
            if names != want:
                violations.append({"sig": "subset/%s/exports-exactly" % t, "features": s, "expected": sorted(want), "observed": sorted(names)})
        per_subset.append(entry)
        _ = exp_items
    # report
    vpaths = []
    seen = set()
    for v in violations:
        key = v["sig"].split("/", 2)[-1] if v["sig"].count("/") >= 2 else v["sig"]
        if key in seen and len(vpaths) >= 6:
            continue
        seen.add(key)
        v["property"] = "C17"
        h = hashlib.sha1(json.dumps(v, sort_keys=True).encode()).hexdigest()[:12]
        path = os.path.join(ROOT, "replays", "C17-%s.json" % h)
        json.dump(v, open(path, "w"), indent=1, ensure_ascii=False)
        vpaths.append(path)
        print("  %s %s" % (v["sig"], json.dumps({k: v[k] for k in v if k in ("features", "input", "expected", "observed")}, ensure_ascii=False)[:400]))
        print("VIOLATION property=C17 replay=%s" % path)
    if not samples and cases:
        samples.append({"features": full, "evaluator": cases[0][0], "input": json.loads(cases[0][2]), "placeholder": cases[0][1], "outcome": ref["lines"].get(0)})
    ev = {
        "property_id": "C17",
        "tier": TIER,
        "seed": SEED,
        "level": "exploration",
        "coverage": {
            "evaluations": evaluations,
            "distinct_nontrivial": len(nontrivial),
            "rule": "All 31 non-empty subsets of the five evaluator features (exhaustive) x a case file (regression corpus + fixed expressions + %d seeded random well-formed/mutated expressions over all evaluators). Each subset is built from /repo's working tree (probe binary, hooks on) and must build; the probe's bit-exact outcome lines for the evaluators in the subset must equal the all-features build's lines; the public root items (nightly rustdoc JSON, hooks off) must be exactly the selected eval_* functions plus Number (with eval_number) and ParseError; `use string_calculator::X` must compile iff X is selected (rustc --extern probes). non-trivial = (subset, case) pairs with an Ok outcome and >=2 operators; distinct by (subset, case index)." % count,
            "samples": samples,
            "exhaustive": False,
            "exhaustive_subspaces": ["feature subsets (31 of 31)"],
            "subsets": per_subset,
            "cases_in_file": len(cases),
            "rustdoc_json_available": doc_available,
            "violation_replays": vpaths,
        },
        "assumptions": ["rustdoc JSON needs the nightly toolchain; if it is unavailable only the rustc --extern probes decide the export clause", "each subset is compared with the all-features build of the same /repo tree (differential), not with an absolute oracle"],
        "wall_s": round(time.time() - t0, 2),
        "violations": len(vpaths),
    }
    os.makedirs(os.path.join(ROOT, "evidence"), exist_ok=True)
    json.dump(ev, open(os.path.join(ROOT, "evidence", "C17.json"), "w"), indent=1, ensure_ascii=False)
    # doc target dirs are large and cheap to rebuild
    for d in glob.glob(os.path.join(TGT, "doc-*")):
        shutil.rmtree(d, ignore_errors=True)
    print("C17 %s seed=%d: 31 subsets, %d case comparisons, %d distinct non-trivial, %d violation(s), %.1fs" % (TIER, SEED, evaluations, len(nontrivial), len(vpaths), time.time() - t0))
    return 1 if vpaths else 0


if __name__ == "__main__":
    sys.exit(main())
