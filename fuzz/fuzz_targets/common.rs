// shared by both targets (included with include!)
use scverif::api::{self, Ev, Val};
use scverif::props;
use scverif::run::{self, Case, Known, Shared, ShardCtx, Tier};
use std::sync::OnceLock;

fn shared() -> &'static Shared {
    static S: OnceLock<Shared> = OnceLock::new();
    S.get_or_init(Shared::new)
}

fn known(id: &'static str) -> &'static Known {
    static K: OnceLock<std::sync::Mutex<std::collections::HashMap<&'static str, &'static Known>>> = OnceLock::new();
    let m = K.get_or_init(|| std::sync::Mutex::new(std::collections::HashMap::new()));
    let mut g = m.lock().unwrap();
    *g.entry(id).or_insert_with(|| Box::leak(Box::new(Known::load(id))))
}

/// Run one property check inside the fuzz target; an unlisted violation writes a replay file and aborts
/// (so that libFuzzer saves the input), a listed known finding is ignored.
fn only() -> &'static Option<String> {
    static O: OnceLock<Option<String>> = OnceLock::new();
    O.get_or_init(|| std::env::var("SCVERIF_FUZZ_ONLY").ok().filter(|s| !s.is_empty()))
}

fn run_check(id: &'static str, sub: &str, case: &Case) {
    if let Some(o) = only() {
        if o != id {
            return;
        }
    }
    let prop = props::by_id(id).expect("property");
    let k = known(id);
    let mut sc = ShardCtx::new(prop.id(), 0, Tier::Thorough, shared(), k);
    if let Err(f) = prop.check(sub, case, &mut sc) {
        if k.matches(&f.sig).is_some() {
            return;
        }
        let case = f.case.clone().unwrap_or_else(|| case.clone());
        let j = run::failure_json(id, sub, &case, &f, 0, Tier::Thorough, "fuzz");
        let dir = std::env::var("SCVERIF_FUZZ_REPLAYS").unwrap_or_else(|_| "/verif/replays".to_string());
        let _ = std::fs::create_dir_all(&dir);
        let h = scverif::util::fnv(j.to_string().as_bytes());
        let path = format!("{}/fuzz-{}-{:016x}.json", dir, id, h);
        let _ = std::fs::write(&path, serde_json::to_string_pretty(&j).unwrap());
        eprintln!("FUZZ-VIOLATION property={} replay={} sig={}", id, path, f.sig);
        std::process::abort();
    }
}

fn pick_placeholder(ev: Ev, sel: u8) -> Val {
    let pool = props::common::ph_pool(ev);
    pool[sel as usize % pool.len()].clone()
}
