#![no_main]
//! bytes -> choice decoder -> well-formed tree (structure-aware fuzzing with the same generators as the
//! proptest driver) -> C04 (reference value + bracketed rendering), C12 (explicit product rendering),
//! C14 (substitution / reference), C05/C06/C09 (reference evaluators), C20 (composition).
use libfuzzer_sys::fuzz_target;
use scverif::choice::ByteSeq;
include!("common.rs");

fuzz_target!(|data: &[u8]| {
    api::install_hook();
    if data.len() < 4 {
        return;
    }
    // with SCVERIF_FUZZ_ONLY the selector byte is ignored and every input exercises that property
    let which = match std::env::var("SCVERIF_FUZZ_ONLY").as_deref() {
        Ok("C04") => 0,
        Ok("C12") => 1,
        Ok("C14") => 2,
        Ok("C05") => 3,
        Ok("C06") => 4,
        Ok("C09") => 5,
        Ok("C20") => 6,
        _ => data[0] % 7,
    };
    let mut c = ByteSeq::new(&data[1..]);
    let (id, sub): (&'static str, &str) = match which {
        0 => ("C04", "tree"),
        1 => ("C12", "tree"),
        2 => ("C14", "substitution"),
        3 => ("C05", "tree"),
        4 => ("C06", "tree"),
        5 => ("C09", "tree"),
        _ => ("C20", "compose"),
    };
    let prop = props::by_id(id).unwrap();
    if let Some(case) = prop.gen(sub, &mut c) {
        run_check(id, sub, &case);
        // every generated tree is also a C01 / C02 case
        run_check("C01", "tree", &case);
        run_check("C02", "tree", &case);
    }
});
