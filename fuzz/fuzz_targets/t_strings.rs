#![no_main]
//! bytes -> string through a weighted alphabet table (every byte value is a meaningful symbol:
//! keyword fragments, digits, operators, superscripts, whitespace, a few raw code points), one
//! placeholder selector byte -> all five evaluators. In-target oracles: C01 (no panic), C02 (step
//! budget), C03 (recogniser), C13 (whitespace-injected copy gives the identical outcome).
use libfuzzer_sys::fuzz_target;
include!("common.rs");

fn alphabet() -> &'static Vec<String> {
    static A: OnceLock<Vec<String>> = OnceLock::new();
    A.get_or_init(|| {
        let base = scverif::gen::raw_alphabet();
        (0..256).map(|i| base[i % base.len()].clone()).collect()
    })
}

fuzz_target!(|data: &[u8]| {
    api::install_hook();
    if data.len() < 2 {
        return;
    }
    let sel = data[0];
    let a = alphabet();
    let mut s = String::new();
    for b in &data[1..] {
        s.push_str(&a[*b as usize]);
        if s.chars().count() >= 256 {
            break;
        }
    }
    let s: String = s.chars().take(256).collect();
    for ev in Ev::ALL {
        let ph = pick_placeholder(ev, sel);
        let case = Case::new(ev, s.clone(), ph.clone());
        run_check("C01", "raw", &case);
        run_check("C02", "raw", &case);
        run_check("C03", "mutant", &case);
        // whitespace-injected copy: deterministic positions derived from the data
        let cs: Vec<char> = s.chars().collect();
        if !cs.is_empty() {
            let mut v = cs.clone();
            let w = scverif::vocab::WHITE_SPACE[sel as usize % 25];
            v.insert((data[1] as usize) % (cs.len() + 1), w);
            let mut c13 = Case::new(ev, s.clone(), ph);
            c13.aux = vec![v.into_iter().collect(), format!("whitespace U+{:04X}", w as u32)];
            run_check("C13", "ws-random", &c13);
        }
    }
});
