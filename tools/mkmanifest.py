#!/usr/bin/env python3
"""Regenerates /verif/MANIFEST.json from the table below (kept in one place so it stays valid)."""
import json, os
ROOT = os.path.dirname(os.path.dirname(os.path.abspath(__file__)))

HOOK_COMMITS = ["6174218", "9355482", "ed92598"]

CHECKS = {
 # id: (technique, level text, level note, design ref)
 "C01": ("bounded-exhaustive token/character enumeration + grammar- and mutation-directed random generation (proptest), oracle: call returns",
         "Exploration: every piece sequence of length <=3 over each evaluator's full vocabulary, <=4/5 over token-class representatives, every short string over the keyword alphabet and the keyword neighbourhood are enumerated completely under both overflow-check settings; beyond that random trees, near-miss mutants and raw Unicode strings. Absence of panics is established only for what was run.",
         "Trusts catch_unwind + the panic hook to observe panics and the supervisor to observe aborts; a budget hit (possible hang) is excluded here and reported by C02.", "4/C01"),
 "C02": ("deterministic step counter (verif_hooks) armed with the property's exact bound; exhaustive looping-construct x extreme-argument block + random generation",
         "Exploration: the bound 4096+256*len is enforced by a counter, not by time; all looping constructs are crossed with an extreme-argument pool exhaustively, length-scaling families check the linear term, random trees/mutants/raw strings search beyond.",
         "Only loops carrying a tick are counted (all loops in src/ today); library-internal loops are covered by a watchdog that reports inconclusive, never a violation.", "4/C02"),
}

CHECKS.update({
 "C03": ("differential against an independently written stratified recogniser; bounded-exhaustive token/character enumeration + near-miss mutation (proptest)",
         "Exploration: Ok must imply Accept/DontCare of the reference recogniser and Accept with all operations defined must imply Ok; decided exhaustively for every piece sequence <=3 over the full vocabulary plus foreign tokens, <=4/5 over class representatives, every short string over the keyword alphabet, the keyword neighbourhood; random near-miss mutants and well-formed trees beyond.",
         "Trusts the reference lexer/grammar (harness/src/lex.rs, grammar.rs), written from the property text and cross-checked against the implementation on ~10^7 inputs; DontCare regions are listed in DESIGN.md section 3.5.", "4/C03"),
 "C04": ("reference parse + exact reference evaluation, and metamorphic full-bracketing; bounded-exhaustive operator chains + random trees (proptest)",
         "Exploration: every chain of <=3 infix operators with decorated operands and every single bracket span is enumerated; each case is compared with an exact reference evaluation of the independently derived tree and with the evaluation of its fully bracketed rendering.",
         "Trusts the stratified reference grammar and the reference evaluators; trees containing approximate nodes are only checked by the metamorphic oracle.", "4/C04"),
 "C05": ("node-by-node IEEE reference evaluation of the reference parse, bit-exact comparison; exhaustive unary/binary blocks over a boundary pool + random trees (proptest)",
         "Exploration: every unary form and every binary operator is crossed with a boundary-value pool (and every placeholder) exhaustively; random trees of depth <=6 beyond; results compared on bit patterns and required to be Ok.",
         "Trusts Rust's f64 operators/methods as the IEEE/C-library reference and Rust's decimal-to-double conversion for literals (independently checked by C19).", "4/C05"),
 "C06": ("exact i128 reference evaluation with per-node range check; exhaustive operator x boundary-pool blocks in both overflow-check profiles + random trees (proptest)",
         "Exploration: a op b over the whole boundary pool for all operators, all unary forms, n! for 0..25 and all operator pairs over a sub-pool are enumerated in both profiles; random trees beyond; Err is demanded exactly where C06 demands it.",
         "Unspecified regions (<< that does not fit, exponents outside 0..2^32-1, negative factorial) are only compared across the two profiles.", "4/C06"),
})

CHECKS.update({
 "C12": ("metamorphic rewrite A R -> (A*(R)) of the reference parse + exact reference evaluation + exhaustive rejection block; bounded-exhaustive short forms + random trees (proptest)",
         "Exploration: every combination of left context, A kind, B kind, suffix and right context is enumerated per evaluator; random trees put juxtaposition nodes in every context; every way a constant, @, superscript, deg or rad could start or continue a product is required to be rejected.",
         "Trusts the reference grammar's J production (written from C12's text); literal-literal adjacency is a DontCare region and never generated.", "4/C12"),
 "C13": ("metamorphic pairs (S, S') with identical placeholder: whitespace (exhaustive position x character on short inputs, random beyond), token-level alias swaps, tree/token-level respellings (proptest)",
         "Exploration: each of the 25 White_Space characters is inserted at every position of a fixed input list; random well-formed, mutated and raw inputs get random whitespace; alias swaps and the seven respellings are applied at random sites; outcomes must be identical bit for bit.",
         "No oracle needed; the superscript and prefix-+ rewrites are applied only under the side conditions C13 states, decided on the reference lexer's token stream.", "4/C13"),
 "C14": ("identity on the whole placeholder pool (exhaustive), metamorphic substitution by a verified literal, independence, and exact reference evaluation with @ bound (proptest)",
         "Exploration: @, (@), +@ must return every pool placeholder identically (NaN payload, -0.0, variant, scale); random expressions are compared with their literal-substituted form and with reference evaluation.",
         "A placeholder without an exact literal spelling (NaN payloads other than the default NaN, extreme subnormals) is only covered by identity and reference evaluation.", "4/C14"),
 "C20": ("metamorphic three-call composition check eval(C[(E)],q) == eval(C, eval(E,q)) on random (context, subexpression) pairs (proptest)",
         "Exploration: random one-hole contexts (hole at a random leaf) x random subexpressions over boundary operands, all five evaluators; no oracle beyond the public API.",
         "Contexts are restricted to well-formed expressions with exactly one @ (so the hole is never next to a juxtaposition trigger).", "4/C20"),
})

CHECKS.update({
 "C07": ("exact decimal reference on hand-written big integers; exhaustive literal-pool block + random trees / division nodes (proptest)",
         "Exploration: all operator x literal-pool^2 combinations with signs are enumerated; random trees over + - * and random single / % nodes with literals of 1..29 digits and every scale; results compared for exact equality (or the stated 1e-27 bound by cross-multiplication), Err demanded for zero divisors and out-of-range results.",
         "Trusts harness/src/big.rs (self-tested); intermediates that are in range but need rounding are unspecified and only counted.", "4/C07"),
 "C09": ("typed reference evaluator (Integer steps in i128, Float steps in f64) vs eval_number; exhaustive operator x mixed pool blocks + random typed trees (proptest)",
         "Exploration: every binary operator over (Integer ∪ Float ∪ non-finite ∪ @)^2 and every unary/rounding form over the pool plus halves are enumerated; random trees of depth <=5 beyond; variant and value asserted where C09 fixes them, numeric value elsewhere.",
         "Where an operand's Integer/Float variant is not fixed by C09 the reference follows both readings and asserts only when they agree.", "4/C09"),
 "C18": ("classification from raw bits (independent of float arithmetic) vs Number::from; exhaustive structured boundary set + random bit patterns (proptest)",
         "Exploration: ~21k structured boundary patterns (all powers of two +-2 ulp, +-2^63/2^64 neighbourhoods, 2^k+-1/0.5, subnormals, NaNs, infinities) exhaustively, then 2*10^6 (quick) / 2*10^8 (thorough) random patterns, half of them with exponents 2^40..2^70 and sparse mantissas.",
         "All 2^64 patterns cannot be enumerated; integrality/range boundaries are covered structurally.", "4/C18"),
})

CHECKS.update({
 "C11": ("oracle computed from the multiset of argument values; exhaustive ordered tuples (all permutations) over a small pool + random lists (proptest)",
         "Exploration: every ordered argument tuple of length <=4 (thorough <=5) over an 9-11 value pool for every aggregate and evaluator - which includes every permutation of every multiset - random lists up to length 8 with varied argument spellings, failing arguments at every position, empty lists.",
         "Argument values are scaled integers (k/1024, k/10^4) so that every partial sum is exact and the expected mean is a single correctly rounded division; NaN/inf arguments are outside the claim.", "4/C11"),
})

CHECKS.update({
 "C15": ("differential testing between evaluators on one rendered text, restriction decided by reference / eval_f64 subexpression values; random trees (proptest) + exhaustive real grid for complex",
         "Exploration: (i) i64-vs-number and (ii) f64-vs-number on random trees of the shared grammars, (iii) complex-vs-f64 on an exhaustive grid of every shared function/operator x in-domain real points, (iv) decimal-vs-f64 on random well-conditioned positive trees with a propagated error bound.",
         "Cases that leave the stated restriction are skipped and counted; the restriction for (ii) is decided on eval_f64's own subexpression values.", "4/C15"),
})

CHECKS.update({
 "C10": ("table-driven: every (evaluator, spelling) x dense argument grid (exhaustive) + random log-uniform arguments (proptest); oracles: host libm, exact closed forms, tgamma, defining identity and an independent Halley iteration for Lambert W, C08's principal-branch reference for the eval_complex names",
         "Exploration: the whole finite vocabulary of functions, aliases, postfix operators, brackets and constants is crossed with a fixed argument grid per evaluator and then sampled with random decimal-string arguments; exact functions compared exactly, the others at the 1e-9 the property states, eval_i64 real-valued functions within 1.",
         "Trusts glibc's libm (through Rust std and tgamma via FFI) as the mathematical reference; points where the function is undefined, within 0.01 of a gamma pole, or not representable in the evaluator's type are skipped and counted.", "4/C10"),
})

CHECKS.update({
 "C08": ("independent pair-arithmetic reference (component formulas, exp/ln/atan2 definitions), validity predicates for inverse functions, differential against eval_f64 on real operands; exhaustive literal/real grids + random trees (proptest)",
         "Exploration: every literal form and every operator/function on in-domain real operands exhaustively; random exact-operator trees compared bit for bit; every operator/function spelling applied at the root of random exact subtrees over generic complex operands compared at the tolerance the property states, inverse functions through their defining identity and principal range.",
         "Operands within 1e-3 of a branch cut (but not exactly on it) or of zero modulus, above 1e3 in modulus, and library-valued operands that are not generic are skipped and counted; exactly on a cut either one-sided limit is accepted; an approximate node below the root is judged one step at a time on the library's own operand values. Four recorded findings (asinh/atanh/atan/asin of arguments below 1e-6) are printed as KNOWN-FINDING.", "4/C08, 10, 11"),
})

CHECKS.update({
 "C19": ("exact big-integer correct-rounding oracle for literals; exhaustive short literals + boundary literals + random digit runs; print/re-read round trip on boundary, random-bit and expression-result values (proptest)",
         "Exploration: every digit string of length <=5 over {0,1,5,9} with the point at every position is evaluated by every evaluator; halfway cases between adjacent doubles, extreme expansions and 28-digit decimals at every scale are listed explicitly; random literals up to 400 digits; the Display text of finite results is re-evaluated and must reproduce the value.",
         "Trusts harness/src/big.rs; no string-to-double routine is trusted (the returned double is checked against both neighbouring midpoints by cross-multiplication).", "4/C19"),
})

CHECKS.update({
 "C16": ("model-based history testing: generated call histories (one shrinkable value) checked after every step against a no-state reference model whose predictions come from isolated child processes; concurrent replay on 16 threads (proptest)",
         "Exploration: 48 (quick) / 1600 (thorough) histories of 200-1000+ calls mixing evaluators, repeated expressions with changing placeholders, failing and malformed inputs; each call must equal the isolated first-time outcome; the same history is then replayed by 16 threads at different rotations and one key is hammered with per-thread placeholders.",
         "Thread schedules are sampled by the OS, not enumerated (the crate has no synchronisation primitive to intercept); sequential order dependence is explored by generated histories only.", "4/C16"),
})

CHECKS.update({
 "C17": ("exhaustive enumeration of the 31 feature subsets; differential testing of each subset build against the all-features build on a generated case file; export set from rustdoc JSON + rustc --extern probes",
         "Exploration (exhaustive over configurations, sampled over inputs): every non-empty feature subset is built from /repo's working tree, must compile, must export exactly the selected items, and its evaluators must return bit-identical outcomes to the default build on the regression corpus plus 4000 (quick) / 200000 (thorough) generated expressions.",
         "The all-features build is the behavioural reference (other properties check it against oracles); rustdoc JSON requires the nightly toolchain present in this image.", "4/C17"),
})

NOT_YET = {
}

def main():
    props = [json.loads(l) for l in open(os.path.join(ROOT, "properties.jsonl"))]
    checks = []
    na = []
    for p in props:
        pid = p["id"]
        if pid in CHECKS:
            tech, text, note, ref = CHECKS[pid]
            checks.append({
                "property_id": pid,
                "quick_cmd": "./check %s quick" % pid,
                "thorough_cmd": "./check %s thorough" % pid,
                "evidence_file": "/verif/evidence/%s.json" % pid,
                "replay_cmd_template": "./check %s --replay {path}" % pid,
                "engine": "special/c17.py + subset/ probe crate" if pid == "C17" else "scverif",
                "level_claimed": {"category": "exploration", "text": text, "design_ref": "DESIGN.md section " + ref},
                "level_note": note,
                "technique": tech,
            })
        else:
            na.append({"property_id": pid, "reason": NOT_YET.get(pid, "check not built yet in this snapshot of /verif (work in progress; the design for it is DESIGN.md section 4/%s)" % pid)})
    m = {
        "version": 1,
        "setup_cmd": "./check --build",
        "hooks": {
            "guard": "cargo feature verif_hooks",
            "enable": "harness/Cargo.toml depends on string_calculator = { path = \"/repo\" } and forwards its default feature `hooks` to /repo's `verif_hooks` (rel, oc and dbg builds); the same harness is also built with --no-default-features (hooks off, target-nohook) and every check except C02 runs on that build too; every ./check run starts with cargo build, so edits under /repo are picked up",
            "baseline_off_cmd": "cd /repo && cargo test --workspace --no-fail-fast --offline",
            "source_commits": HOOK_COMMITS,
            "add_only": True,
        },
        "engines": [
            {"name": "scverif", "path": "/verif/harness", "serves_properties": sorted(CHECKS.keys()),
             "kind_free_text": "Rust property-based testing harness: proptest TestRunner over choice sequences (fixed seeds, shrinking), bounded-exhaustive enumerators, reference lexer/parser/evaluators as oracles, built against /repo's working tree in three configurations: overflow checks off and on with the verif_hooks feature (step budget), and without the feature (the crate as it ships); every check except C02 runs on all the builds that apply to it"},
        ],
        "checks": checks,
        "not_applicable": na,
        "notes": "Property-based testing and fuzzing only. ./check <ID> quick|thorough; VERIF_SEED selects the PRNG seed. Exit 0 = held, 1 = VIOLATION lines, 2 = inconclusive. known_findings.txt lists repaired defects (fixed:, suppress nothing) and recorded ones (known:, four for C08, printed as KNOWN-FINDING on every run of ./check C08). seeded/ holds 231 independently produced changes to /repo with their detection records (DESIGN.md section 12).",
    }
    if not na:
        m["not_applicable"] = []
    json.dump(m, open(os.path.join(ROOT, "MANIFEST.json"), "w"), indent=1)
    print("MANIFEST.json: %d checks, %d not claimed" % (len(checks), len(na)))

if __name__ == "__main__":
    main()
