#!/bin/bash
# usage: tools/mkmutant.sh <name> <file-relative-to-/repo> <perl -0pe expression>
# creates /verif/sens/<name>.diff from a one-off edit of /repo (which is restored immediately)
set -e
name="$1"; file="$2"; expr="$3"
cd /repo
git diff --quiet || { echo "/repo dirty"; exit 3; }
perl -0pi -e "$expr" "$file"
if git diff --quiet; then echo "mutant $name: expression changed nothing"; exit 4; fi
git diff > /verif/sens/$name.diff
git checkout -- .
echo "wrote sens/$name.diff ($(grep -c '^[-+][^-+]' /verif/sens/$name.diff) changed lines)"
