#!/bin/bash
# usage: tools/with_patch.sh <patch.diff> <command...>   — applies the patch to /repo, runs the command, always restores /repo
set -u
patch="$(realpath "$1")"; shift
if ! git -C /repo diff --quiet; then echo "/repo has uncommitted changes; refusing" >&2; exit 3; fi
git -C /repo apply "$patch" || { echo "patch does not apply" >&2; exit 3; }
"$@"; rc=$?
git -C /repo checkout -- . ; git -C /repo clean -fdq -- src
exit $rc
