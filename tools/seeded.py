#!/usr/bin/env python3
"""Confirms the sub-agents' seeded changes in their scratch worktrees and records them under /verif/seeded/.

  tools/seeded.py confirm            for every /tmp/seed/Cxx/out/patch{A,B}.diff: applies, builds (with and without hooks),
                                     runs the 531 tests, runs the demo with and without the change; copies confirmed ones
                                     to /verif/seeded/<Cxx>-<K>/ (patch.diff, demo, notes.md, meta.json)
  tools/seeded.py detect [ids...]    applies each kept patch to /repo (restored afterwards), runs ./check <prop> quick
                                     (then thorough if quick is silent) and records the verdict in meta.json
"""
import concurrent.futures as cf
import glob
import json
import os
import shutil
import subprocess
import sys
import time

SEED = os.environ.get("SEED_DIR", "/tmp/seed")
ROUND = int(os.environ.get("SEED_ROUND", "1"))
OUT = "/verif/seeded"
ENV = dict(os.environ, CARGO_NET_OFFLINE="true", CARGO_TERM_COLOR="never")


def sh(cmd, cwd, timeout=1800):
    p = subprocess.run(cmd, cwd=cwd, env=ENV, stdout=subprocess.PIPE, stderr=subprocess.STDOUT, text=True, errors="replace", timeout=timeout, shell=isinstance(cmd, str))
    return p.returncode, p.stdout


def run_demo(wt, k):
    """returns exit code of the demo in the worktree's current state"""
    shp = os.path.join(wt, "out", "demo%s.sh" % k)
    rsp = os.path.join(wt, "out", "demo%s.rs" % k)
    os.makedirs(os.path.join(wt, "examples"), exist_ok=True)
    if os.path.exists(rsp):
        shutil.copy(rsp, os.path.join(wt, "examples", "demo%s.rs" % k))
    if os.path.exists(shp):
        try:
            rc, out = sh(["bash", shp], wt, timeout=900)
        except subprocess.TimeoutExpired:
            return 124, "timeout"
        return rc, out[-1500:]
    feats = []
    try:
        rc, out = sh(["timeout", "300", "cargo", "run", "--offline", "--example", "demo%s" % k] + feats, wt, timeout=900)
    except subprocess.TimeoutExpired:
        return 124, "timeout"
    return rc, out[-1500:]


def confirm_one(wt):
    pid = os.path.basename(wt)
    res = []
    for k in ("A", "B"):
        patch = os.path.join(wt, "out", "patch%s.diff" % k)
        if not os.path.exists(patch):
            continue
        r = {"id": "%s-%s" % (pid, chr(ord(k) + 2 * (ROUND - 1))), "property": pid}
        sh("git checkout -- . && git clean -fdq -- src examples", wt)
        rc, out = sh(["git", "apply", "--check", patch], wt)
        if rc != 0:
            r["status"] = "patch does not apply: " + out[-300:]
            res.append(r)
            continue
        # demo without the change
        rc0, out0 = run_demo(wt, k)
        sh(["git", "apply", patch], wt)
        b1, o1 = sh(["cargo", "build", "--offline"], wt)
        b2, o2 = sh(["cargo", "build", "--offline", "--features", "verif_hooks"], wt)
        t, to = sh(["cargo", "test", "--offline"], wt)
        passed = "531 passed; 0 failed" in to
        rc1, out1 = run_demo(wt, k)
        sh("git checkout -- . && git clean -fdq -- src examples", wt)
        r.update({"build": b1 == 0, "build_hooks": b2 == 0, "tests_531_pass": passed, "demo_exit_without_change": rc0, "demo_exit_with_change": rc1})
        ok = b1 == 0 and b2 == 0 and passed and rc0 == 0 and rc1 != 0
        r["status"] = "confirmed" if ok else "rejected"
        if not ok:
            r["detail"] = (o1[-300:] if b1 else "") + (o2[-300:] if b2 else "") + ("" if passed else to[-500:]) + "\nwithout: " + out0[-300:] + "\nwith: " + out1[-300:]
        else:
            d = os.path.join(OUT, r["id"])
            os.makedirs(d, exist_ok=True)
            shutil.copy(patch, os.path.join(d, "patch.diff"))
            for ext in ("rs", "sh"):
                f = os.path.join(wt, "out", "demo%s.%s" % (k, ext))
                if os.path.exists(f):
                    shutil.copy(f, os.path.join(d, "demo." + ext if ext == "rs" else "demo.sh"))
            notes = os.path.join(wt, "out", "notes%s.md" % k)
            if os.path.exists(notes):
                shutil.copy(notes, os.path.join(d, "notes.md"))
            meta = {
                "id": r["id"],
                "breaks_property": pid,
                "origin": "independent sub-agent given only the property text and a scratch worktree of /repo (commit %s)" % subprocess.run(["git", "-C", "/repo", "rev-parse", "--short", "HEAD"], stdout=subprocess.PIPE, text=True).stdout.strip(),
                "needs_to_manifest": "see notes.md",
                "round": ROUND,
                "confirmed": {
                    "where": "scratch worktree %s" % wt,
                    "commands": ["git apply patch.diff", "cargo build --offline", "cargo build --offline --features verif_hooks", "cargo test --offline  (531 passed; 0 failed)", "cargo run --offline --example demo  (demo copied to examples/; demo.sh run directly when present)"],
                    "demo_exit_without_change": rc0,
                    "demo_exit_with_change": rc1,
                },
            }
            json.dump(meta, open(os.path.join(d, "meta.json"), "w"), indent=1)
        res.append(r)
    shutil.rmtree(os.path.join(wt, "examples"), ignore_errors=True)
    return res


def confirm():
    os.makedirs(OUT, exist_ok=True)
    wts = sorted(glob.glob(os.path.join(SEED, "C[0-9][0-9]")))
    allr = []
    with cf.ThreadPoolExecutor(max_workers=8) as ex:
        for rs in ex.map(confirm_one, wts):
            for r in rs:
                print(json.dumps({k: v for k, v in r.items() if k != "detail"}))
                if r["status"] != "confirmed":
                    print("   ", r.get("detail", "")[-600:].replace("\n", "\n    "))
                allr.append(r)
    json.dump(allr, open(os.path.join(OUT, "confirm_log.json"), "w"), indent=1)


def detect(ids):
    dirs = sorted(glob.glob(os.path.join(OUT, "C*-*")))
    for d in dirs:
        sid = os.path.basename(d)
        if ids and sid not in ids and sid.split("-")[0] not in ids:
            continue
        meta = json.load(open(os.path.join(d, "meta.json")))
        pid = meta["breaks_property"]
        patch = os.path.join(d, "patch.diff")
        verdicts = {}
        for tier in os.environ.get("SEEDED_TIERS", "quick,thorough").split(","):
            t0 = time.time()
            rc, out = sh(["/verif/tools/with_patch.sh", patch, "/verif/check", pid, tier], "/verif", timeout=7200)
            lines = [l for l in out.split("\n") if l.startswith("VIOLATION") or "sig=" in l]
            verdicts[tier] = {"exit": rc, "violation_lines": len([l for l in lines if l.startswith("VIOLATION")]), "first": (lines[0][:300] if lines else ""), "wall_s": round(time.time() - t0, 1)}
            print(sid, pid, tier, "exit", rc, (lines[0][:160] if lines else out.strip().split("\n")[-1][:160]))
            sys.stdout.flush()
            if rc == 1:
                break
        meta["detection"] = {"own_property_check": verdicts, "detected_by": ("quick" if verdicts.get("quick", {}).get("exit") == 1 else "thorough" if verdicts.get("thorough", {}).get("exit") == 1 else "not detected by ./check %s" % pid)}
        json.dump(meta, open(os.path.join(d, "meta.json"), "w"), indent=1)
    subprocess.run(["rm", "-rf", "/verif/replays"])


def reconfirm_one(args):
    wt, dirs = args
    out = []
    for d in dirs:
        sid = os.path.basename(d)
        patch = os.path.join(d, "patch.diff")
        sh("git checkout -q -- . && git clean -fdq -- src examples", wt)
        rc, o = sh(["git", "apply", "--check", patch], wt)
        if rc != 0:
            out.append((sid, "patch does not apply", {}))
            continue
        os.makedirs(os.path.join(wt, "out"), exist_ok=True)
        for f in ("demo.rs", "demo.sh"):
            src = os.path.join(d, f)
            if os.path.exists(src):
                dst = os.path.join(wt, "out", "demoX." + f.split(".")[1])
                txt = open(src).read()
                # demo scripts refer to their original location: point them at this worktree
                for old in ("/tmp/seed/%s" % sid.split("-")[0], "/tmp/seed2/%s" % sid.split("-")[0]):
                    txt = txt.replace(old, wt)
                txt = txt.replace("demoA", "demoX").replace("demoB", "demoX")
                open(dst, "w").write(txt)
        for f in ("demoX.rs", "demoX.sh"):
            pth = os.path.join(wt, "out", f)
            if not os.path.exists(os.path.join(d, "demo." + f.split(".")[1])) and os.path.exists(pth):
                os.remove(pth)
        rc0, out0 = run_demo(wt, "X")
        sh(["git", "apply", patch], wt)
        b1, _ = sh(["cargo", "build", "--offline"], wt)
        b2, _ = sh(["cargo", "build", "--offline", "--features", "verif_hooks"], wt)
        t, to = sh(["cargo", "test", "--offline"], wt)
        passed = "531 passed; 0 failed" in to
        rc1, out1 = run_demo(wt, "X")
        sh("git checkout -q -- . && git clean -fdq -- src examples", wt)
        ok = b1 == 0 and b2 == 0 and passed and rc0 == 0 and rc1 != 0
        out.append((sid, "confirmed" if ok else "NOT CONFIRMED", {"build": b1 == 0, "build_hooks": b2 == 0, "tests_531_pass": passed, "demo_exit_without_change": rc0, "demo_exit_with_change": rc1}))
    return out


def reconfirm():
    """Re-confirms every kept change against /repo's current HEAD in fresh scratch worktrees."""
    head = subprocess.run(["git", "-C", "/repo", "rev-parse", "--short", "HEAD"], stdout=subprocess.PIPE, text=True).stdout.strip()
    dirs = sorted(glob.glob(os.path.join(OUT, "C*-*")))
    n = 8
    wts = []
    for k in range(n):
        wt = "/tmp/reconfirm-%d" % k
        subprocess.run(["git", "-C", "/repo", "worktree", "remove", "--force", wt], stdout=subprocess.DEVNULL, stderr=subprocess.DEVNULL)
        subprocess.run(["git", "-C", "/repo", "worktree", "add", "-q", "--detach", wt, "HEAD"], check=True)
        wts.append(wt)
    jobs = [(wts[k], dirs[k::n]) for k in range(n)]
    with cf.ThreadPoolExecutor(max_workers=n) as ex:
        for res in ex.map(reconfirm_one, jobs):
            for sid, status, detail in res:
                print(sid, status, detail)
                mp = os.path.join(OUT, sid, "meta.json")
                m = json.load(open(mp))
                m["reconfirmed"] = {"repo_head": head, "status": status, **detail}
                json.dump(m, open(mp, "w"), indent=1, ensure_ascii=False)
    for wt in wts:
        subprocess.run(["git", "-C", "/repo", "worktree", "remove", "--force", wt])


if __name__ == "__main__":
    if len(sys.argv) > 1 and sys.argv[1] == "reconfirm":
        reconfirm()
    elif len(sys.argv) > 1 and sys.argv[1] == "confirm":
        confirm()
    elif len(sys.argv) > 1 and sys.argv[1] == "detect":
        detect(sys.argv[2:])
    else:
        print(__doc__)
