#!/bin/bash
# usage: try_patch.sh <seeded-id> <prop> [worker args...]   applies the patch to /repo, builds rel (+nohook), runs the worker, restores /repo
id=$1; prop=$2; shift 2
git -C /repo apply /verif/seeded/$id/patch.diff || exit 3
cd /verif/harness
cargo build --profile rel 2>&1 | grep -E "^error" -A5
./target/rel/scverif worker $prop --tier quick --seed 0 "$@" 2>&1 | grep FAILURE | cut -c1-420 | head -3
if [ -n "$NOHOOK" ]; then CARGO_TARGET_DIR=/verif/harness/target-nohook cargo build --profile rel --no-default-features 2>&1 | grep -E "^error" -A5; ./target-nohook/rel/scverif worker $prop --tier quick --seed 0 "$@" 2>&1 | grep FAILURE | cut -c1-420 | head -3; fi
git -C /repo checkout -- .
git -C /repo clean -fdq -- src
echo "[$id done]"
