//! C19 — "A literal of the form DIGITS, DIGITS.DIGITS, DIGITS. or .DIGITS (leading zeros allowed)
//! evaluates to the correctly rounded double in eval_f64/eval_complex (imaginary with an `i` suffix), to
//! exactly that integer in eval_i64 and as Integer in eval_number when it fits i64 (Float when it has a
//! point), and to exactly that decimal in eval_decimal when it has at most 28 significant digits. Feeding
//! the standard textual form of any finite Ok result of eval_f64, eval_i64 (except i64::MIN),
//! eval_decimal or eval_complex back into the same evaluator returns the same value."
//!
//! Oracle for doubles: correct rounding is verified with exact big-integer arithmetic (no string->double
//! routine is trusted).

use super::common::*;
use super::{c05, c06, c07, c08};
use crate::api::{self, Ev, Outcome, Val};
use crate::big::BigU;
use crate::choice::Choices;
use crate::gen;
use crate::grammar;
use crate::refeval::decr::DecV;
use crate::run::{Case, Failure, Prop, ShardCtx, Sub, SubKind, Tier};
use std::cmp::Ordering;
use std::sync::OnceLock;

pub struct C19Prop;
pub static C19: C19Prop = C19Prop;

/// compare N/10^k with M*2^e
fn cmp_dec_bin(n: &BigU, k: u32, m: &BigU, e: i64) -> Ordering {
    let (mut lhs, mut rhs) = (n.clone(), m.mul(&BigU::pow10(k)));
    if e < 0 {
        lhs = lhs.shl((-e) as u64);
    } else {
        rhs = rhs.shl(e as u64);
    }
    lhs.cmp(&rhs)
}

/// (mantissa, exponent) with value = m * 2^e, for a finite non-negative double
fn decompose(d: f64) -> (u64, i64) {
    let bits = d.to_bits();
    let exp = ((bits >> 52) & 0x7ff) as i64;
    let frac = bits & 0x000f_ffff_ffff_ffff;
    if exp == 0 {
        (frac, -1074)
    } else {
        ((1u64 << 52) | frac, exp - 1075)
    }
}

/// Is `d` the correctly rounded (nearest, ties to even) double of the decimal N/10^k ?
pub fn correctly_rounded(n: &BigU, k: u32, d: f64) -> bool {
    if d.is_nan() || d.is_sign_negative() && d != 0.0 {
        return false;
    }
    // threshold to infinity: (2^54 - 1) * 2^970  (midpoint between MAX and 2^1024); a tie rounds to "even" = infinity
    let inf_mid = BigU::from_u64((1u64 << 54) - 1);
    if d.is_infinite() {
        return cmp_dec_bin(n, k, &inf_mid, 970) != Ordering::Less;
    }
    let (m, e) = decompose(d);
    // upper midpoint: (2m+1) * 2^(e-1)
    let up = BigU::from_u64(2 * m + 1);
    let c_up = if d == f64::MAX { cmp_dec_bin(n, k, &inf_mid, 970) } else { cmp_dec_bin(n, k, &up, e - 1) };
    let even = m % 2 == 0;
    let ok_up = match c_up {
        Ordering::Less => true,
        Ordering::Equal => even && d != f64::MAX,
        Ordering::Greater => false,
    };
    if !ok_up {
        return false;
    }
    if d == 0.0 {
        return true;
    }
    // lower midpoint: between d and its predecessor
    let pred = f64::from_bits(d.to_bits() - 1);
    let (pm, pe) = decompose(pred);
    // midpoint = (pred + d) / 2 ; bring both to the smaller exponent
    let emin = pe.min(e);
    let sum = BigU::from_u64(pm).shl((pe - emin) as u64).add(&BigU::from_u64(m).shl((e - emin) as u64));
    match cmp_dec_bin(n, k, &sum, emin - 1) {
        Ordering::Greater => true,
        Ordering::Equal => even,
        Ordering::Less => false,
    }
}

/// split a literal into (digit string without point, number of fractional digits)
fn split_literal(lit: &str) -> (String, u32) {
    match lit.split_once('.') {
        Some((a, b)) => (format!("{}{}", a, b), b.len() as u32),
        None => (lit.to_string(), 0),
    }
}

fn short_literals() -> &'static Vec<String> {
    static CELL: OnceLock<Vec<String>> = OnceLock::new();
    CELL.get_or_init(|| {
        let alpha = ['0', '1', '5', '9'];
        let mut v = Vec::new();
        for len in 1..=5usize {
            let total = 4usize.pow(len as u32);
            for idx in 0..total {
                let mut x = idx;
                let digits: String = (0..len)
                    .map(|_| {
                        let d = alpha[x % 4];
                        x /= 4;
                        d
                    })
                    .collect();
                v.push(digits.clone());
                for p in 0..=len {
                    let s = format!("{}.{}", &digits[..p], &digits[p..]);
                    if s != "." {
                        v.push(s.clone());
                        if idx % 7 == 0 {
                            v.push(format!("000{}", s));
                            v.push(format!("{}00", s));
                            v.push(format!("0{}0", s));
                        }
                    }
                }
            }
        }
        v.retain(|s| s.chars().any(|c| c.is_ascii_digit()) && !(s.starts_with('.') && s.len() == 1));
        v.sort();
        v.dedup();
        v
    })
}

fn boundary_literals() -> &'static Vec<String> {
    static CELL: OnceLock<Vec<String>> = OnceLock::new();
    CELL.get_or_init(|| {
        let mut v: Vec<String> = Vec::new();
        // well-known constants typed to every precision (a literal recogniser that maps "3.14159265358979" to pi is as
        // wrong as one that misrounds it): every prefix of 40-digit expansions
        for (ip, frac) in [("3", "1415926535897932384626433832795028841971"), ("2", "7182818284590452353602874713526624977572"), ("1", "4142135623730950488016887242096980785696"), ("0", "6931471805599453094172321214581765680755"), ("1", "6180339887498948482045868343656381177203"), ("0", "5772156649015328606065120900824024310421"), ("0", "3333333333333333333333333333333333333333"), ("299792", "4580000000000000000000000000000000000000"), ("6", "0221407600000000000000000000000000000000"), ("57", "2957795130823208767981548141051703324054"), ("0", "0174532925199432957692369076848861271344")] {
            for n in 1..=frac.len() {
                v.push(format!("{}.{}", ip, &frac[..n]));
            }
        }
        for d in 9007199254740990u64..=9007199254740998 {
            v.push(format!("{}", d));
            v.push(format!("{}.0", d));
            v.push(format!("{}.5", d));
            v.push(format!("{}.49999999999999999999", d));
            v.push(format!("{}.50000000000000000001", d));
        }
        // exact halfway cases between adjacent doubles around a few anchors, +- one unit in the last digit
        for anchor in [1.0f64, 0.1, 0.3, 1e22, 1e23, 123456.789, 5e-324, 2.2250738585072014e-308, 1.7976931348623157e308, 9007199254740992.0, 4.35, 1e-5, 8.41e21] {
            let (m, e) = decompose(anchor);
            // midpoint (2m+1)*2^(e-1) as an exact decimal string (only when it is short enough)
            if let Some(s) = exact_decimal(&BigU::from_u64(2 * m + 1), e - 1) {
                if s.len() <= 800 {
                    v.push(s.clone());
                    v.push(bump_last(&s, true));
                    v.push(bump_last(&s, false));
                }
            }
            if let Some(s) = exact_decimal(&BigU::from_u64(m), e) {
                if s.len() <= 800 {
                    v.push(s);
                }
            }
        }
        // exact midpoints followed by a long run of zeros and a final non-zero digit (the excess decides the rounding)
        for anchor in [1.0f64, 9007199254740992.0, 0.5, 0.1, 1e22, 123456.789, 4.35] {
            let (m, e) = decompose(anchor);
            if let Some(s) = exact_decimal(&BigU::from_u64(2 * m + 1), e - 1) {
                let s = if s.contains('.') { s } else { format!("{}.", s) };
                for k in [1usize, 20, 100, 300, 340, 345, 400, 700] {
                    v.push(format!("{}{}1", s, "0".repeat(k)));
                }
            }
        }
        // redundant leading zeros in front of ordinary literals
        for k in [1usize, 5, 17, 18, 19, 20, 30, 46, 47, 48, 49, 64, 100, 200, 300] {
            for lit in ["42", "12.50", "0.0000000000000000000000000001", ".5", "7.", "9007199254740993", "123456789.125"] {
                v.push(format!("{}{}", "0".repeat(k), lit));
            }
        }
        // long leading-dot literals
        for d in [19usize, 20, 21, 25, 28, 29, 30, 40] {
            v.push(format!(".{}", "3".repeat(d)));
            v.push(format!(".{}", "9".repeat(d)));
            v.push(format!(".{}1", "0".repeat(d)));
            v.push(format!(".{}5", "0".repeat(d)));
        }
        // digit patterns around 2^53 with the point at every position
        for digits in ["9007199254740993", "9007199254740992", "9007199254740991", "9007199254740995", "18014398509481985", "4503599627370497"] {
            for p in 0..=digits.len() {
                v.push(format!("{}.{}", &digits[..p], &digits[p..]));
            }
        }
        v.push("9223372036854775807".into());
        v.push("9223372036854775806".into());
        v.push(format!("179769313486231570{}", "0".repeat(291)));
        v.push(format!("179769313486231580{}", "0".repeat(291)));
        v.push(format!("1{}", "0".repeat(308)));
        v.push(format!("1{}", "0".repeat(309)));
        v.push(format!("0.{}1", "0".repeat(400)));
        v.push(format!("0.{}49", "0".repeat(323)));
        v.push(format!("0.{}25", "0".repeat(323)));
        v.push(format!("0.{}24703282292062327208051355972", "0".repeat(323)));
        v.push(format!("0.{}24703282292062327208051355973", "0".repeat(323)));
        // 28 significant digits at every scale
        let d28 = "7922816251426433759354395033";
        for sc in 0..=28usize {
            if sc == 0 {
                v.push(d28.to_string());
            } else if sc < 28 {
                v.push(format!("{}.{}", &d28[..28 - sc], &d28[28 - sc..]));
            } else {
                v.push(format!("0.{}", d28));
            }
        }
        v.push("79228162514264337593543950335".into());
        v.push("0.0000000000000000000000000001".into());
        v.push("1.0000000000000000000000000000".into());
        v
    })
}

/// exact decimal expansion of m * 2^e (None if it would be absurdly long)
fn exact_decimal(m: &BigU, e: i64) -> Option<String> {
    if e >= 0 {
        if e > 1100 {
            return None;
        }
        Some(m.shl(e as u64).to_dec_string())
    } else {
        let k = (-e) as u32;
        if k > 1100 {
            return None;
        }
        // m / 2^k = m * 5^k / 10^k
        let mut p = m.clone();
        for _ in 0..k {
            p = p.mul_small(5);
        }
        let digits = p.to_dec_string();
        let k = k as usize;
        Some(if digits.len() > k { format!("{}.{}", &digits[..digits.len() - k], &digits[digits.len() - k..]) } else { format!("0.{}{}", "0".repeat(k - digits.len()), digits) })
    }
}

fn bump_last(s: &str, up: bool) -> String {
    // append a digit that moves the value just above / below: "...5" -> "...50001" / "...49999"
    if up {
        format!("{}0001", s)
    } else {
        // decrement the last digit by one and append 9999 (last digit of a midpoint expansion is 5)
        let mut cs: Vec<char> = s.chars().collect();
        if let Some(last) = cs.last_mut() {
            if *last > '0' && last.is_ascii_digit() {
                *last = ((*last as u8) - 1) as char;
            }
        }
        let t: String = cs.into_iter().collect();
        format!("{}9999", t)
    }
}

fn random_literal(c: &mut dyn Choices) -> String {
    let n = match c.below(6) {
        0 => 1 + c.below(6),
        1 | 2 => 1 + c.below(25),
        3 => 15 + c.below(10),
        4 => 1 + c.below(60),
        _ => 1 + c.below(400),
    } as usize;
    let mut digits = String::new();
    for _ in 0..n {
        digits.push((b'0' + c.below(10) as u8) as char);
    }
    match c.below(4) {
        0 => digits,
        _ => {
            let p = c.below(n as u32 + 1) as usize;
            let s = format!("{}.{}", &digits[..p], &digits[p..]);
            if s == "." {
                "0.".into()
            } else {
                s
            }
        }
    }
}

/// value source for the print / re-read round trip
fn gen_value(ev: Ev, c: &mut dyn Choices) -> Option<Val> {
    match c.below(3) {
        0 => Some(pick_ph(ev, c)),
        1 => {
            let mut b = 0u64;
            for _ in 0..4 {
                b = (b << 16) | c.below(65536) as u64;
            }
            Some(match ev {
                Ev::F64 => Val::F(f64::from_bits(b)),
                Ev::I64 => Val::I(b as i64),
                Ev::Cpx => Val::C(f64::from_bits(b), f64::from_bits(b.rotate_left(17) ^ 0x5555)),
                Ev::Dec => {
                    let lit = c07::gen_literal(c);
                    match api::eval(Ev::Dec, &lit, &Val::D(dec("0"))) {
                        Outcome::Ok(v) => v,
                        _ => return None,
                    }
                }
                Ev::Num => return None,
            })
        }
        _ => {
            // result of a random expression
            let s = match ev {
                Ev::F64 => grammar::render(&gen::gen_expr(&c05::profile(), c, 4)),
                Ev::I64 => grammar::render(&gen::gen_expr(&c06::profile(), c, 4)),
                Ev::Dec => {
                    let a = c07::gen_literal(c);
                    let b = c07::gen_literal(c);
                    format!("{}{}{}", a, ["+", "-", "*", "/"][c.below(4) as usize], b)
                }
                Ev::Cpx => match c08::C08.gen("root", c) {
                    Some(case) => case.input,
                    None => return None,
                },
                Ev::Num => return None,
            };
            match api::eval(ev, &s, &pick_ph(ev, c)) {
                Outcome::Ok(v) => Some(v),
                _ => None,
            }
        }
    }
}

impl Prop for C19Prop {
    fn id(&self) -> &'static str {
        "C19"
    }
    fn rule(&self) -> String {
        "Literals: exhaustive over digit strings of length <=5 on {0,1,5,9} with the point at every position (incl. first and last) and leading/trailing zero variants; boundary literals (2^53-8..2^53+6 with .0/.5/.4999…/.5000…1 tails, exact halfway points between adjacent doubles and their neighbours one unit above/below for a set of anchors incl. min/max normal and subnormal, 1e22/1e23, full expansions up to ~770 digits, 309/310-digit overflow and 324..430-digit underflow literals, i64::MAX, 28-significant-digit decimals at every scale, Decimal::MAX); random digit runs of 1..400 digits with a random point. Each literal is evaluated by every evaluator that can hold it (and as Li in eval_complex). Oracles: f64/complex/number-with-point: the returned double is verified to be the nearest double (ties to even) by exact big-integer cross-multiplication against both neighbouring midpoints; i64 / number-without-point: exact integer, Integer variant; decimal: exact (coefficient, scale) value. Round trip: boundary pools, random bit patterns and results of random expressions of eval_f64, eval_i64 (not MIN), eval_decimal, eval_complex: Display text re-evaluated must give the same value (f64 bits; complex/decimal/i64 ==); a quarter of the round trips are preceded on the same thread by a literal the lexer rejects (1.2.3, 1..5, 12.., 1e5 ...). non-trivial = literal with >=16 significant digits, or a point in first/last position, or leading zeros; round-trip value whose text has >=15 digits; distinct by (evaluator, text).".into()
    }
    fn assumptions(&self) -> Vec<String> {
        vec!["harness/src/big.rs (self-tested) is trusted for the correct-rounding oracle".into()]
    }
    fn subs(&self, tier: Tier) -> Vec<Sub> {
        vec![
            Sub { name: "short", kind: SubKind::Enum { count: short_literals().len() as u64 } },
            Sub { name: "boundary", kind: SubKind::Enum { count: boundary_literals().len() as u64 } },
            Sub { name: "random", kind: SubKind::Random { cases: tier.pick(100_000, 4_000_000), len: 420 } },
            Sub { name: "roundtrip", kind: SubKind::Random { cases: tier.pick(400_000, 20_000_000), len: 200 } },
        ]
    }
    fn gen_enum(&self, sub: &str, idx: u64, _tier: Tier) -> Option<Case> {
        let s = match sub {
            "short" => short_literals().get(idx as usize)?.clone(),
            _ => boundary_literals().get(idx as usize)?.clone(),
        };
        Some(Case::new(Ev::F64, s, Val::F(0.0)))
    }
    fn gen(&self, sub: &str, c: &mut dyn Choices) -> Option<Case> {
        if sub == "random" {
            return Some(Case::new(Ev::F64, random_literal(c), Val::F(0.0)));
        }
        let ev = [Ev::F64, Ev::I64, Ev::Dec, Ev::Cpx][c.below(4) as usize];
        let v = gen_value(ev, c)?;
        if !v.is_finite() || matches!(v, Val::I(i64::MIN)) {
            return None;
        }
        let mut case = Case::new(ev, api::display(&v), Val::default_for(ev));
        case.aux = vec!["roundtrip".into(), v.enc()];
        if c.below(4) == 0 {
            // a literal the lexer rejects is evaluated first on the same thread: the reading of the next literal must
            // not depend on it (literal scanners with a reused buffer)
            case.aux.push(["1.2.3", "1..5", "3.14.15", ".", "12..", "0x10", "1e5", "1_000", "7.", ".5.", "99999999999999999999999999999999999999999.9.9"][c.below(11) as usize].to_string());
        }
        Some(case)
    }
    fn check(&self, sub: &str, case: &Case, sc: &mut ShardCtx) -> Result<(), Failure> {
        if sub == "roundtrip" || case.aux.first().map(|s| s == "roundtrip").unwrap_or(false) {
            let ev = case.ev;
            let v = match case.aux.get(1).and_then(|s| Val::dec(s)) {
                Some(v) => v,
                None => return Ok(()),
            };
            if let Some(prelude) = case.aux.get(2) {
                let _ = eval_normal(sc, ev, prelude, &case.ph);
                sc.class("roundtrip after a rejected literal");
            }
            let o = match eval_normal(sc, ev, &case.input, &case.ph) {
                Some(o) => o,
                None => return Ok(()),
            };
            let ok = match (&o, &v) {
                (Outcome::Ok(Val::F(g)), Val::F(w)) => g.to_bits() == w.to_bits(),
                (Outcome::Ok(Val::I(g)), Val::I(w)) => g == w,
                (Outcome::Ok(Val::D(g)), Val::D(w)) => g == w,
                (Outcome::Ok(Val::C(a, b)), Val::C(x, y)) => a == x && b == y,
                _ => false,
            };
            if !ok {
                return Err(Failure::new(format!("{}/roundtrip", ev.name()), format!("Ok({}) (the value that was printed)", v.show()), o.show()));
            }
            sc.class(&format!("roundtrip:{}", ev.name()));
            if case.input.chars().filter(|c| c.is_ascii_digit()).count() >= 15 {
                sc.nontrivial(case.hash(), || sample(case, &o.show()));
            }
            return Ok(());
        }
        // literal semantics, for every evaluator that can hold the literal
        let lit = &case.input;
        let (digits, k) = split_literal(lit);
        let n = match BigU::from_dec_str(if digits.is_empty() { "0" } else { &digits }) {
            Some(n) => n,
            None => return Ok(()),
        };
        let sig_digits = digits.trim_start_matches('0').len();
        let interesting = sig_digits >= 16 || lit.starts_with('.') || lit.ends_with('.') || (lit.starts_with('0') && lit.len() > 1 && !lit.starts_with("0."));
        for ev in Ev::ALL {
            let forms: Vec<(String, bool)> = if ev == Ev::Cpx { vec![(lit.clone(), false), (format!("{}i", lit), true)] } else { vec![(lit.clone(), false)] };
            for (text, imag) in forms {
                if accept(ev, &text).is_none() {
                    sc.exclude("literal not holdable by this evaluator (no claim)");
                    continue;
                }
                let o = match eval_normal(sc, ev, &text, &Val::default_for(ev)) {
                    Some(o) => o,
                    None => continue,
                };
                let ok = match (ev, &o) {
                    (Ev::F64, Outcome::Ok(Val::F(d))) => correctly_rounded(&n, k, *d),
                    (Ev::Cpx, Outcome::Ok(Val::C(re, im))) => {
                        if imag {
                            *re == 0.0 && correctly_rounded(&n, k, *im)
                        } else {
                            *im == 0.0 && correctly_rounded(&n, k, *re)
                        }
                    }
                    (Ev::I64, Outcome::Ok(Val::I(g))) => k == 0 && n.to_u128() == Some(*g as u128) && *g >= 0,
                    (Ev::Num, Outcome::Ok(Val::NI(g))) => !lit.contains('.') && n.to_u128() == Some(*g as u128) && *g >= 0,
                    (Ev::Num, Outcome::Ok(Val::NF(d))) => lit.contains('.') && correctly_rounded(&n, k, *d),
                    (Ev::Dec, Outcome::Ok(Val::D(d))) => DecV::from_decimal(d).eq_value(&DecV { n: crate::big::BigI::from_parts(false, n.clone()), scale: k }),
                    _ => false,
                };
                if !ok {
                    return Err(Failure::new(format!("{}/literal{}", ev.name(), if imag { "-imaginary" } else { "" }), format!("the exact value of the literal {} ({})", text, match ev { Ev::F64 | Ev::Cpx => "correctly rounded double", Ev::Num => "Integer, or correctly rounded Float when it has a point", _ => "exactly" }), o.show()).with_case(Case::new(ev, text.clone(), Val::default_for(ev))));
                }
                sc.class(&format!("literal:{}", ev.name()));
                if interesting {
                    let c2 = Case::new(ev, text.clone(), Val::default_for(ev));
                    sc.nontrivial(c2.hash(), || sample(&c2, &o.show()));
                }
            }
        }
        Ok(())
    }
}

pub fn selftest() {
    // the correct-rounding oracle accepts exactly one double per literal
    for lit in ["0.1", "0.3", "1", "9007199254740993", "2.2250738585072014", "123456789.125", "0.000001", "179769313486231570000000000000000000000"] {
        let (digits, k) = split_literal(lit);
        let n = BigU::from_dec_str(&digits).unwrap();
        let d: f64 = lit.parse().unwrap();
        assert!(correctly_rounded(&n, k, d), "{}", lit);
        assert!(!correctly_rounded(&n, k, f64::from_bits(d.to_bits() + 1)), "{} +1ulp", lit);
        assert!(!correctly_rounded(&n, k, f64::from_bits(d.to_bits() - 1)), "{} -1ulp", lit);
    }
    // ties to even: 9007199254740993 is exactly between ...992 and ...994
    let n = BigU::from_dec_str("9007199254740993").unwrap();
    assert!(correctly_rounded(&n, 0, 9007199254740992.0));
    assert!(!correctly_rounded(&n, 0, 9007199254740994.0));
    println!("c19 correct-rounding oracle selftest ok");
}
