//! C05 — "eval_f64's result equals bit for bit (all NaNs identified) the double obtained by applying
//! the corresponding IEEE-754 / C-library operation at every node of the expression's tree: + - * /,
//! % (fmod, sign of the dividend), unary minus (sign flip, so -0 is -0.0), ^ (pow), abs, floor, ceil,
//! trunc, round (half away from zero), sqrt, and the constants pi and e as the nearest doubles.
//! Overflow, division by zero and invalid operations produce +-inf or NaN values that propagate
//! through the rest of the expression; they are never turned into Err."

use super::common::*;
use crate::api::{Ev, Outcome, Val};
use crate::choice::Choices;
use crate::gen::{self, Profile};
use crate::grammar::{self, BinOp};
use crate::refeval::f64r::{self, RF};
use crate::run::{Case, Failure, Prop, ShardCtx, Sub, SubKind, Tier};
use crate::vocab;
use std::sync::OnceLock;

pub struct C05Prop;
pub static C05: C05Prop = C05Prop;

const FUNCS: [&str; 8] = ["abs", "floor", "ceil", "trunc", "truncate", "round", "sqrt", "pow"];

/// boundary operands as expression texts (each evaluates to exactly the intended double)
pub fn operand_pool() -> &'static Vec<String> {
    static CELL: OnceLock<Vec<String>> = OnceLock::new();
    CELL.get_or_init(|| {
        let vals: Vec<f64> = vec![
            0.0, 1.0, 2.0, 3.0, 0.5, 1.5, 2.5, 3.5, 0.1, 0.2, 0.3, 7.0, 10.0, 0.49999999999999994, 0.5000000000000001, 4503599627370496.0, 4503599627370495.5, 4503599627370497.0, 9007199254740991.0,
            9007199254740992.0, 9007199254740994.0, 1e15, 1e16, 1e22, 1e23, 123456789.125, 0.000001, 1e-10, 1024.0, 0.75, 100.0, 1e100, 1e200, 1e-100,
        ];
        let mut v: Vec<String> = Vec::new();
        for x in vals {
            if let Some(s) = f64_literal(x) {
                v.push(s.clone());
                v.push(format!("(-{})", s));
            }
        }
        for s in ["(-0)", "(1/0)", "(-1/0)", "(0/0)", "pi", "π", "e", "@", "(-@)"] {
            v.push(s.to_string());
        }
        // literals whose text is not what Display would print: integer parts that are exact rounding ties with a fraction
        // that breaks the tie, redundant zeros, more digits than a double holds
        for s in ["10000000000000001.5", "9007199254740993.5", "18014398509481986.25", "9007199254740993.0000000000000000000000001", "0.1000000000000000055511151231257827021181583404541015625", "00000000000000000000000002.50", "1.00000000000000011102230246251565404236316680908203125", "1.00000000000000011102230246251565404236316680908203126"] {
            v.push(s.to_string());
        }
        // leading-dot spellings of tiny values with 20..30 fractional digits and few significant ones
        for frac in [20usize, 22, 23, 24, 25, 28, 30] {
            for d in ["1", "1602176634", "242631023867", "66743", "91093837015", "5"] {
                if d.len() <= frac {
                    v.push(format!(".{}{}", "0".repeat(frac - d.len()), d));
                }
            }
        }
        v.push(format!(".{}1", "0".repeat(309)));
        v.push(format!(".{}1", "0".repeat(322)));
        // literals that overflow / underflow while lexing
        v.push("9".repeat(400));
        v.push(format!("1{}", "0".repeat(308)));
        v.push(format!("17976931348623157{}", "0".repeat(292)));
        v.push(format!("0.{}1", "0".repeat(322)));
        v.push(format!("0.{}5", "0".repeat(323)));
        v.push(format!("0.{}22250738585072014", "0".repeat(307)));
        v
    })
}

fn unary_cases() -> &'static Vec<String> {
    static CELL: OnceLock<Vec<String>> = OnceLock::new();
    CELL.get_or_init(|| {
        let mut v = Vec::new();
        for a in operand_pool() {
            for f in ["abs", "floor", "ceil", "trunc", "truncate", "round", "sqrt"] {
                v.push(format!("{}({})", f, a));
            }
            v.push(format!("-{}", a));
            v.push(format!("+{}", a));
            v.push(format!("⌊{}⌋", a));
            v.push(format!("⌈{}⌉", a));
            v.push(format!("{}²", a));
            v.push(format!("{}⁰", a));
            v.push(format!("{}³", a));
        }
        v.retain(|s| char_len(s) <= 256);
        v
    })
}

fn binary_cases() -> &'static Vec<String> {
    static CELL: OnceLock<Vec<String>> = OnceLock::new();
    CELL.get_or_init(|| {
        let mut v = Vec::new();
        let pool: Vec<&String> = operand_pool().iter().filter(|s| s.len() <= 40).collect();
        for a in &pool {
            for b in &pool {
                for op in ["+", "-", "*", "/", "%", "^"] {
                    v.push(format!("{}{}{}", a, op, b));
                }
                v.push(format!("pow({},{})", a, b));
                v.push(format!("mod({},{})", a, b));
            }
        }
        v
    })
}

/// Multi-level shapes an evaluator might fuse into one library call (hypot for sqrt(a^2+b^2), fma, expm1 ...): each
/// node has to be the IEEE operation on its operands' values, so the whole must equal the node-by-node reference.
fn idiom_cases() -> &'static Vec<String> {
    static CELL: OnceLock<Vec<String>> = OnceLock::new();
    CELL.get_or_init(|| {
        let t = ["sqrt(X^2+Y^2)", "sqrt(X²+Y²)", "sqrt(pow(X,2)+pow(Y,2))", "sqrt(X*X+Y*Y)", "(X^2+Y^2)^0.5", "sqrt(X^2-Y^2)", "X*Y+Z", "Z+X*Y", "X*Y-Z", "(X+Y)/2", "X/Y*Y", "X*Y/Y", "X-X+Y", "sqrt(X)^2", "sqrt(X^2)", "abs(X)^2", "X^0.5", "X^(1/2)", "X^(0-1)", "1/(1/X)", "X*pi/180", "X/180*pi", "X*180/pi", "pi*X/180", "X*e/e", "X^2^0.5", "X%Y+Y", "mod(X,Y)*Y", "floor(X/Y)*Y+X%Y", "trunc(X/Y)", "round(X*Y)/Y", "X*0.5", "X/2", "X+X", "2*X", "X*X*X", "X^3", "X^2*X", "-X+Y", "Y-X", "-(X-Y)", "X*(0-1)", "abs(X-Y)", "ceil(X-0.5)", "floor(X+0.5)", "X*3-Y*9", "X*X-4*Y*0.25", "X*Y-Y*X", "X*3-Y*9+1", "X*0.7-Y*0.49", "X*Y+Y*X", "X/3-Y/9", "X*Y-0.49"];
        let xs = ["0.1", "0.4", "3", "4", "0.7", "19", "57", "23", "1.5", "(0-2.5)", "@", "123456789.125", "0.3", "9007199254740993", "6", "12", "33.3", "11.1", "1.1", "0.49"];
        let zs = ["0.2", "@", "7"];
        let mut v = Vec::new();
        for f in t {
            for x in xs {
                for y in if f.contains('Y') { xs.to_vec() } else { vec![""] } {
                    for z in if f.contains('Z') { zs.to_vec() } else { vec![""] } {
                        v.push(f.replace('X', x).replace('Y', y).replace('Z', z));
                    }
                }
            }
        }
        v
    })
}

pub fn profile() -> Profile {
    let mut p = Profile::full(Ev::F64);
    p.funcs.retain(|f| FUNCS.contains(&f.name) || f.name == "mod");
    p.ops = vec![BinOp::Add, BinOp::Sub, BinOp::Mul, BinOp::Div, BinOp::Mod, BinOp::Pow];
    p.fact = false;
    p.deg = false;
    p.lits = operand_pool().iter().filter(|s| s.chars().all(|c| c.is_ascii_digit() || c == '.')).filter(|s| s.len() <= 30).cloned().collect();
    p.sups = ["2", "3", "0", "1", "10"].iter().map(|s| s.to_string()).collect();
    p.max_depth = 6;
    p
}

impl Prop for C05Prop {
    fn id(&self) -> &'static str {
        "C05"
    }
    fn rule(&self) -> String {
        "Well-formed eval_f64 expressions over exactly C05's list (+ - * / % ^ pow mod, unary minus, abs floor ceil trunc round sqrt, ⌊⌋ ⌈⌉, pi, e). Exhaustive: every unary form x boundary pool (0, -0, 0.1, halves, 0.49999999999999994, 2^52/2^53 neighbours, 1e22/1e23, huge/tiny, 309/400-digit literals that overflow, 324-digit literals that underflow, 1/0, -1/0, 0/0, @) and every binary operator x pool^2, with every f64 placeholder; long flat chains of 2..512 operands per operator (0.1+0.2+0.2…, 1e16+1.0+…: the left-to-right rounding sequence is the specification); random trees of depth <=6 beyond. Oracle: Rust/IEEE operation applied node by node to the reference parse; compared on bit patterns (NaNs identified); outcome must be Ok. non-trivial = >=2 operator nodes and (a non-integer or boundary operand, or an inexact/non-finite result); distinct by (input, placeholder).".into()
    }
    fn subs(&self, tier: Tier) -> Vec<Sub> {
        vec![
            Sub { name: "unary", kind: SubKind::Enum { count: unary_cases().len() as u64 } },
            Sub { name: "binary", kind: SubKind::Enum { count: binary_cases().len() as u64 } },
            Sub { name: "long", kind: SubKind::Enum { count: super::long::all(true).iter().filter(|x| x.0 == Ev::F64).count() as u64 } },
            Sub { name: "idioms", kind: SubKind::Enum { count: idiom_cases().len() as u64 } },
            Sub { name: "tree", kind: SubKind::Random { cases: tier.pick(1_000_000, 50_000_000), len: 160 } },
        ]
    }
    fn gen_enum(&self, sub: &str, idx: u64, _tier: Tier) -> Option<Case> {
        let s = match sub {
            "idioms" => idiom_cases().get(idx as usize)?.clone(),
            "long" => super::long::all(true).iter().filter(|x| x.0 == Ev::F64).nth(idx as usize)?.1.clone(),
            "unary" => unary_cases().get(idx as usize)?.clone(),
            _ => binary_cases().get(idx as usize)?.clone(),
        };
        // '@' cases are expanded over the placeholder pool inside check
        Some(Case::new(Ev::F64, s, Val::F(0.0)))
    }
    fn gen(&self, _sub: &str, c: &mut dyn Choices) -> Option<Case> {
        let p = profile();
        let ph = pick_ph(Ev::F64, c);
        let s = grammar::render(&gen::gen_expr(&p, c, p.max_depth));
        if char_len(&s) > 256 {
            return None;
        }
        Some(Case::new(Ev::F64, s, ph))
    }
    fn check(&self, sub: &str, case: &Case, sc: &mut ShardCtx) -> Result<(), Failure> {
        let e = match accept(Ev::F64, &case.input) {
            Some(e) => e,
            None => {
                sc.exclude("not accepted by the reference parser");
                return Ok(());
            }
        };
        let phs: Vec<Val> = if sub != "tree" && case.input.contains('@') { ph_pool(Ev::F64) } else { vec![case.ph.clone()] };
        for ph in phs {
            let p = match ph {
                Val::F(p) => p,
                _ => continue,
            };
            let want = match f64r::eval(&e, p) {
                RF::Exact(v) => v,
                RF::Approx(_) | RF::Unspec(_) | RF::Err => {
                    sc.exclude("outside C05's operation list");
                    continue;
                }
            };
            let o = match eval_normal(sc, Ev::F64, &case.input, &ph) {
                Some(o) => o,
                None => continue,
            };
            let ok = matches!(&o, Outcome::Ok(Val::F(g)) if Val::F(*g).same(&Val::F(want)));
            if !ok {
                let hd = localise(&e, &mut |n| {
                    let s = grammar::render(n);
                    match f64r::eval(n, p) {
                        RF::Exact(w) => !matches!(crate::api::eval(Ev::F64, &s, &ph), Outcome::Ok(Val::F(g)) if Val::F(g).same(&Val::F(w))),
                        _ => false,
                    }
                });
                let cls = if o.is_err() { "err-instead-of-value" } else { "value" };
                return Err(Failure::new(format!("f64/{}/{}", cls, hd), format!("Ok({:?}) [bits {:#018x}]", want, want.to_bits()), o.show()).with_case(Case { ev: Ev::F64, input: case.input.clone(), ph: ph.clone(), aux: vec![] }));
            }
            sc.class(if want.is_nan() {
                "result-NaN"
            } else if want.is_infinite() {
                "result-inf"
            } else if want == 0.0 {
                "result-zero"
            } else if want.fract() == 0.0 && want.abs() < 9e15 {
                "result-finite-integral"
            } else {
                "result-finite-other"
            });
            let ops = grammar::op_count(&e);
            let boundary = case.input.contains('.') || case.input.contains('@') || case.input.contains("/0") || !want.is_finite() || want.fract() != 0.0 || want.abs() >= 9007199254740992.0;
            if ops >= 2 && boundary {
                let c2 = Case { ev: Ev::F64, input: case.input.clone(), ph: ph.clone(), aux: vec![] };
                sc.nontrivial(c2.hash(), || sample(&c2, &o.show()));
            }
        }
        let _ = vocab::is_ws(' ');
        Ok(())
    }
}
