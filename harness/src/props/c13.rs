//! C13 — "Inserting or deleting Unicode whitespace anywhere in an input (even inside names and
//! numbers), or swapping an alias for its synonym (pi/π, sgn/sign/signum, med/median, trunc/truncate,
//! w/lambert_w, asinh/arsinh, acosh/arcosh, atanh/artanh), never changes the outcome: the same Ok value
//! bit for bit, or Err in both. For well-formed expressions the same holds for writing ⌊x⌋ for floor(x),
//! ⌈x⌉ for ceil(x), ((a)%(b)) for mod(a,b), ((a)^(b)) for pow(a,b), a superscript digit run for ^N (N a
//! digit literal followed by a binary operator, °, rad, closing bracket, comma or end of input, and not
//! adjacent to another superscript run), a prefix + before an operand, and a redundant pair of round
//! brackets around any complete subexpression."
//!
//! Metamorphic: outcome(S) == outcome(S').

use super::common::*;
use crate::api::{Ev, Val};
use crate::choice::Choices;
use crate::gen::{self, Profile};
use crate::grammar::{self, BinOp, Br, E};
use crate::lex::{self, Tok};
use crate::run::{Case, Failure, Prop, ShardCtx, Sub, SubKind, Tier};
use crate::vocab;
use std::sync::OnceLock;

pub struct C13Prop;
pub static C13: C13Prop = C13Prop;

fn alias_of(name: &str, k: u32) -> Option<&'static str> {
    for g in vocab::ALIAS_GROUPS {
        if let Some(i) = g.iter().position(|x| *x == name) {
            let others: Vec<&&str> = g.iter().enumerate().filter(|(j, _)| *j != i).map(|x| x.1).collect();
            return Some(others[k as usize % others.len()]);
        }
    }
    None
}

fn tokens_to_string(ts: &[Tok]) -> String {
    ts.iter().map(|t| t.text()).collect()
}

/// Swap aliases at token level. Returns None if nothing can be swapped or the result does not lex back
/// to the intended token sequence.
fn alias_swap(ev: Ev, s: &str, c: &mut dyn Choices) -> Option<String> {
    let ts = lex::lex(ev, s).ok()?;
    let sites: Vec<usize> = ts
        .iter()
        .enumerate()
        .filter(|(_, t)| match t {
            Tok::Func(n) => alias_of(n, 0).is_some(),
            Tok::Const(n) => alias_of(n, 0).is_some(),
            _ => false,
        })
        .map(|x| x.0)
        .collect();
    if sites.is_empty() {
        return None;
    }
    let mut out = ts.clone();
    let all = c.below(2) == 0;
    let pick = sites[c.below(sites.len() as u32) as usize];
    for i in sites {
        if all || i == pick {
            let k = c.below(3);
            out[i] = match &ts[i] {
                Tok::Func(n) => {
                    let a = alias_of(n, k)?;
                    Tok::Func(vocab::func(ev, a)?.name)
                }
                Tok::Const(n) => {
                    let a = alias_of(n, k)?;
                    Tok::Const(vocab::consts(ev).iter().find(|x| **x == a)?)
                }
                t => t.clone(),
            };
        }
    }
    let s2 = tokens_to_string(&out);
    if lex::lex(ev, &s2).ok()? != out {
        return None;
    }
    Some(s2)
}

fn follows_ok(t: Option<&Tok>) -> bool {
    matches!(
        t,
        None | Some(Tok::Plus) | Some(Tok::Minus) | Some(Tok::Star) | Some(Tok::Slash) | Some(Tok::Percent) | Some(Tok::Caret) | Some(Tok::Amp) | Some(Tok::Bar) | Some(Tok::Shl) | Some(Tok::Shr) | Some(Tok::Deg) | Some(Tok::Rad) | Some(Tok::RP) | Some(Tok::RF) | Some(Tok::RC) | Some(Tok::Comma)
    )
}

/// `^N` <-> superscript run, under exactly C13's side conditions (token level).
fn superscript_swap(ev: Ev, s: &str, c: &mut dyn Choices) -> Option<String> {
    let ts = lex::lex(ev, s).ok()?;
    let mut sites: Vec<(usize, bool)> = Vec::new(); // (index, to_superscript)
    for i in 0..ts.len() {
        match &ts[i] {
            Tok::Caret => {
                if let Some(Tok::Num(n)) = ts.get(i + 1) {
                    let plain = n.chars().all(|ch| ch.is_ascii_digit());
                    let prev_sup = i > 0 && matches!(ts[i - 1], Tok::Sup(_));
                    // a caret directly after `^N`'s own base only; the base must exist
                    if plain && i > 0 && !prev_sup && follows_ok(ts.get(i + 2)) && !matches!(ts.get(i + 2), Some(Tok::Sup(_))) {
                        sites.push((i, true));
                    }
                }
            }
            Tok::Sup(_) => {
                if i > 0 && follows_ok(ts.get(i + 1)) {
                    sites.push((i, false));
                }
            }
            _ => {}
        }
    }
    if sites.is_empty() {
        return None;
    }
    let (i, up) = sites[c.below(sites.len() as u32) as usize];
    let mut out: Vec<Tok> = Vec::new();
    out.extend_from_slice(&ts[..i]);
    if up {
        if let Tok::Num(n) = &ts[i + 1] {
            out.push(Tok::Sup(n.clone()));
        }
        out.extend_from_slice(&ts[i + 2..]);
    } else {
        if let Tok::Sup(n) = &ts[i] {
            out.push(Tok::Caret);
            out.push(Tok::Num(n.clone()));
        }
        out.extend_from_slice(&ts[i + 1..]);
    }
    let s2 = tokens_to_string(&out);
    if lex::lex(ev, &s2).ok()? != out {
        return None;
    }
    Some(s2)
}

/// prefix + where a prefix operator is syntactically allowed (token level)
fn plus_insert(ev: Ev, s: &str, c: &mut dyn Choices) -> Option<String> {
    let ts = lex::lex(ev, s).ok()?;
    let mut sites = vec![0usize];
    for (i, t) in ts.iter().enumerate() {
        let ok = matches!(t, Tok::Plus | Tok::Minus | Tok::Star | Tok::Slash | Tok::Percent | Tok::Caret | Tok::Amp | Tok::Bar | Tok::Shl | Tok::Shr | Tok::LF | Tok::LC | Tok::Comma)
            // an opening round bracket starts an operand position unless the list that follows is empty: avg()
            || (matches!(t, Tok::LP) && !matches!(ts.get(i + 1), Some(Tok::RP)));
        if ok && i + 1 < ts.len() {
            sites.push(i + 1);
        }
    }
    let at = sites[c.below(sites.len() as u32) as usize];
    let mut out = ts.clone();
    out.insert(at, Tok::Plus);
    Some(tokens_to_string(&out))
}

/// tree-level rewrites at one site
fn tree_rewrite(ev: Ev, e: &E, c: &mut dyn Choices) -> Option<(String, &'static str)> {
    let n = grammar::size(e);
    // nodes that have an alternative spelling of their own
    let mut special: Vec<usize> = Vec::new();
    let mut i = 0usize;
    grammar::walk(e, &mut |x| {
        let sp = match x {
            E::Group(Br::Floor, _) | E::Group(Br::Ceil, _) => true,
            E::Call(name, _) => ["floor", "ceil", "mod", "pow"].contains(name),
            E::Group(Br::Round, inner) => matches!(&**inner, E::Bin(BinOp::Mod | BinOp::Pow, a, b) if matches!(**a, E::Group(Br::Round, _)) && matches!(**b, E::Group(Br::Round, _))),
            _ => false,
        };
        if sp {
            special.push(i);
        }
        i += 1;
    });
    let (site, kind_pick) = if !special.is_empty() && c.below(2) == 0 {
        (special[c.below(special.len() as u32) as usize], 0)
    } else {
        (c.below(n as u32) as usize, c.below(4))
    };
    let mut applied: Option<&'static str> = None;
    let mut counter = 0;
    let out = grammar::map_nodes(e, &mut counter, &mut |idx, node| {
        if idx != site {
            return node;
        }
        let g = |x: E| E::Group(Br::Round, Box::new(x));
        match (&node, kind_pick) {
            (E::Group(Br::Floor, x), 0 | 1) => {
                applied = Some("⌊x⌋→floor(x)");
                E::Call("floor", vec![(**x).clone()])
            }
            (E::Group(Br::Ceil, x), 0 | 1) => {
                applied = Some("⌈x⌉→ceil(x)");
                E::Call("ceil", vec![(**x).clone()])
            }
            (E::Call("floor", a), 0 | 1) if vocab::has_floor_brackets(ev) => {
                applied = Some("floor(x)→⌊x⌋");
                E::Group(Br::Floor, Box::new(a[0].clone()))
            }
            (E::Call("ceil", a), 0 | 1) if vocab::has_floor_brackets(ev) => {
                applied = Some("ceil(x)→⌈x⌉");
                E::Group(Br::Ceil, Box::new(a[0].clone()))
            }
            (E::Call("mod", a), 0 | 1) => {
                applied = Some("mod(a,b)→((a)%(b))");
                g(E::Bin(BinOp::Mod, Box::new(g(a[0].clone())), Box::new(g(a[1].clone()))))
            }
            (E::Call("pow", a), 0 | 1) => {
                applied = Some("pow(a,b)→((a)^(b))");
                g(E::Bin(BinOp::Pow, Box::new(g(a[0].clone())), Box::new(g(a[1].clone()))))
            }
            (E::Group(Br::Round, inner), 0 | 1) => match &**inner {
                E::Bin(BinOp::Mod, a, b) if vocab::func(ev, "mod").is_some() => match (&**a, &**b) {
                    (E::Group(Br::Round, x), E::Group(Br::Round, y)) => {
                        applied = Some("((a)%(b))→mod(a,b)");
                        E::Call("mod", vec![(**x).clone(), (**y).clone()])
                    }
                    _ => node,
                },
                E::Bin(BinOp::Pow, a, b) => match (&**a, &**b) {
                    (E::Group(Br::Round, x), E::Group(Br::Round, y)) => {
                        applied = Some("((a)^(b))→pow(a,b)");
                        E::Call("pow", vec![(**x).clone(), (**y).clone()])
                    }
                    _ => node,
                },
                _ => {
                    applied = Some("redundant brackets");
                    g(node)
                }
            },
            _ => {
                applied = Some("redundant brackets");
                g(node)
            }
        }
    });
    applied.map(|k| (grammar::render(&out), k))
}

fn ws_positions_total(s: &str) -> u64 {
    (char_len(s) as u64 + 1) * 25
}

/// short inputs for exhaustive whitespace insertion (every position x every whitespace character)
fn short_inputs() -> &'static Vec<(Ev, String)> {
    static CELL: OnceLock<Vec<(Ev, String)>> = OnceLock::new();
    CELL.get_or_init(|| {
        let mut v = Vec::new();
        for ev in Ev::ALL {
            let mut xs: Vec<&str> = vec!["\u{feff}1+2", "1+2\u{feff}", "\u{200b}1+2", "1\u{feff}+2", "12+34", "2*(3+4)", "abs(-2)", "sqrt(16)", "pow(2,10)", "1)", "2**3", "(1", "12 34", "ab s(2)", "@^2", "2²", "1,2", "root(2,9)"];
            match ev {
                Ev::I64 => xs.extend(["1<<3", "7>>1", "6&3|1", "gcd(12,18)", "signum(-5)", "median(1,2,3)", "5!", "1< <2"]),
                Ev::Cpx => xs.extend(["2i*3i", "1.5i", "sin(1+i)", "pi", "π/2", "arsinh(1)", "90°", "1rad", "1.5 i"]),
                Ev::Dec => xs.extend(["1.5+2.25", "⌊2.5⌋", "lambert_w(1)", "truncate(2.5)", "median(1,2)", "pi*e", ".5", "5.", "0.1+0.2", "ilog(100,10)"]),
                _ => xs.extend(["1.5+2.25", "⌊2.5⌋", "⌈2.5⌉", "lambert_w(1)", "truncate(2.5)", "signum(-2)", "atan2(1,2)", "artanh(.5)", "90°", "1rad", "pi*e", "5!", ".5", "5.", "ilog(100,10)", "min(1,2)", "avg()"]),
            }
            for x in xs {
                v.push((ev, x.to_string()));
            }
        }
        v
    })
}

/// every name of the vocabulary (and `mod`, `and`, `or`, `xor`, `div` - words a front end might want to accept) as a
/// free-standing word between operands: whitespace around it must not turn it into something else
fn ws_keyword_cases() -> &'static Vec<(Ev, String, String)> {
    static CELL: OnceLock<Vec<(Ev, String, String)>> = OnceLock::new();
    CELL.get_or_init(|| {
        let mut kws: Vec<String> = vocab::all_func_names().iter().map(|s| s.to_string()).collect();
        kws.extend(["pi", "e", "rad", "π", "i", "and", "or", "xor", "div", "not", "x", "times", "deg", "E", "e-", "e+"].iter().map(|s| s.to_string()));
        let mut v = Vec::new();
        for ev in Ev::ALL {
            for kw in &kws {
                for pat in ["7 K 3", "7 K(3)", "(7) K (3)", "7 K 3 K 2", "K 3", "7 K", "7 K -3", "1.5 K 2", "7K 3", "7 K3", "@ K @"] {
                    for w in [' ', '\t', '\u{a0}', '\u{2003}'] {
                        let with: String = pat.replace('K', kw).chars().map(|c| if c == ' ' { w } else { c }).collect();
                        let stripped: String = with.chars().filter(|c| !vocab::is_ws(*c)).collect();
                        v.push((ev, stripped, with));
                    }
                }
            }
        }
        v
    })
}

pub fn profile(ev: Ev) -> Profile {
    let mut p = Profile::full(ev);
    p.max_depth = 4;
    p.funcs.retain(|f| f.canon != "ilog");
    p
}

impl Prop for C13Prop {
    fn id(&self) -> &'static str {
        "C13"
    }
    fn rule(&self) -> String {
        "Pairs (S, S') evaluated with the same placeholder. S: well-formed trees of every evaluator, near-miss mutants and raw strings; long forms (chains, nesting and lists of 2..512 elements) each with one more redundant bracket pair, a prefix +, and a whitespace character; b^N against b with the superscript run for digit strings N of 1..22 digits on bases around 1. S': whitespace — every one of the 25 White_Space characters at every position of a fixed list of short inputs (exhaustive), every vocabulary name and a few foreign words (mod, and, or, div, E …) as a free-standing word between operands with whitespace around it against the stripped text, and 1..6 random whitespace characters at random positions of random S (incl. inside names and numbers); alias swap at token level (pi/π, sgn/sign/signum, med/median, trunc/truncate, w/lambert_w, asinh/arsinh, acosh/arcosh, atanh/artanh; one site or all sites); for well-formed S additionally one of: ⌊x⌋<->floor(x), ⌈x⌉<->ceil(x), mod(a,b)<->((a)%(b)), pow(a,b)<->((a)^(b)), ^N<->superscript run under C13's side conditions, prefix + at an operand position, redundant round brackets around a subtree. Oracle: identical outcome (same Ok bits with NaNs identified, or Err in both). non-trivial = S' differs from S textually and (S evaluates to Ok, or S has >=2 tokens); distinct by (evaluator, S, S', placeholder).".into()
    }
    fn subs(&self, tier: Tier) -> Vec<Sub> {
        let ws_total: u64 = short_inputs().iter().map(|(_, s)| ws_positions_total(s)).sum();
        vec![
            Sub { name: "ws-exhaustive", kind: SubKind::Enum { count: ws_total } },
            Sub { name: "ws-keywords", kind: SubKind::Enum { count: ws_keyword_cases().len() as u64 } },
            Sub { name: "superscript-all", kind: SubKind::Enum { count: 4 * 12 * 401 } },
            Sub { name: "sign-runs", kind: SubKind::Enum { count: Ev::ALL.iter().map(|ev| 11 * ph_pool(*ev).len() as u64).sum() } },
            Sub { name: "long", kind: SubKind::Enum { count: super::long::all(true).len() as u64 * 4 } },
            Sub { name: "superscript-digits", kind: SubKind::Random { cases: tier.pick(100_000, 4_000_000), len: 40 } },
            Sub { name: "ws-random", kind: SubKind::Random { cases: tier.pick(400_000, 20_000_000), len: 160 } },
            Sub { name: "alias", kind: SubKind::Random { cases: tier.pick(300_000, 10_000_000), len: 160 } },
            Sub { name: "rewrite", kind: SubKind::Random { cases: tier.pick(500_000, 20_000_000), len: 160 } },
        ]
    }
    fn gen_enum(&self, sub: &str, mut idx: u64, _tier: Tier) -> Option<Case> {
        if sub == "superscript-all" {
            // b^N against b with the superscript run for every N in 0..400 (not only random digit strings): a fast path
            // for one base and a range of exponents differs at the few N where the platform pow is not correctly rounded
            let bases = ["10", "2", "10.0", "(10)", "100", "5", "3", "0.1", "1.1", "7", "@", "0.5"];
            let ev = [Ev::F64, Ev::Num, Ev::Dec, Ev::I64][(idx % 4) as usize];
            let b = bases[((idx / 4) % 12) as usize];
            let n = idx / 48;
            if ev == Ev::I64 && b.contains('.') {
                return None;
            }
            let mut case = Case::new(ev, format!("{}^{}", b, n), if ev == Ev::F64 { Val::F(10.0) } else { Val::default_for(ev) });
            case.aux = vec![format!("{}{}", b, vocab::ascii_to_sup(&n.to_string())), "superscript".to_string()];
            return Some(case);
        }
        if sub == "sign-runs" {
            // runs of prefix signs against the same run split by redundant brackets, for every pool placeholder
            // (a run collapsed by parity skips the intermediate negations: -(-MIN) is a Float in eval_number)
            let forms = [("--@", "-(-@)"), ("--@", "-(-(@))"), ("---@", "-(-(-@))"), ("-+-@", "-(+(-@))"), ("+-@", "+(-@)"), ("--@+1", "-(-@)+1"), ("2*--@", "2*-(-@)"), ("--@*3", "-(-@)*3"), ("----@", "-(-(-(-@)))"), ("--(@)", "-(-(@))"), ("-@", "-(@)")];
            for ev in Ev::ALL {
                let pool = ph_pool(ev);
                let n = (forms.len() * pool.len()) as u64;
                if idx < n {
                    let (a, b) = forms[idx as usize % forms.len()];
                    let mut case = Case::new(ev, a.to_string(), pool[idx as usize / forms.len()].clone());
                    case.aux = vec![b.to_string(), "redundant brackets".to_string()];
                    return Some(case);
                }
                idx -= n;
            }
            return None;
        }
        if sub == "ws-keywords" {
            let (ev, stripped, with) = ws_keyword_cases().get(idx as usize)?.clone();
            let mut case = Case::new(ev, stripped, ph_pool(ev)[4 % ph_pool(ev).len()].clone());
            case.aux = vec![with, "whitespace around a word".to_string()];
            return Some(case);
        }
        if sub == "long" {
            // every long form with: one more redundant bracket pair, a prefix +, a whitespace character in the
            // middle, and a redundant pair around its first operand
            let (ev, s) = super::long::all(true).get((idx / 4) as usize)?.clone();
            let (s2, kind) = match idx % 4 {
                0 => (format!("({})", s), "redundant brackets"),
                1 => (format!("+{}", s), "prefix +"),
                2 => {
                    let cs: Vec<char> = s.chars().collect();
                    let mut v = cs.clone();
                    v.insert(cs.len() / 2, vocab::WHITE_SPACE[(idx / 4) as usize % 25]);
                    (v.into_iter().collect(), "whitespace")
                }
                _ => (format!("(({}))", s), "redundant brackets"),
            };
            let mut case = Case::new(ev, s, Val::default_for(ev));
            case.aux = vec![s2, kind.to_string()];
            return Some(case);
        }
        for (ev, s) in short_inputs() {
            let n = ws_positions_total(s);
            if idx < n {
                let pos = (idx / 25) as usize;
                let w = vocab::WHITE_SPACE[(idx % 25) as usize];
                let mut cs: Vec<char> = s.chars().collect();
                cs.insert(pos, w);
                let s2: String = cs.into_iter().collect();
                let mut case = Case::new(*ev, s.clone(), ph_pool(*ev)[4 % ph_pool(*ev).len()].clone());
                case.aux = vec![s2, format!("whitespace U+{:04X}", w as u32)];
                return Some(case);
            }
            idx -= n;
        }
        None
    }
    fn gen(&self, sub: &str, c: &mut dyn Choices) -> Option<Case> {
        let ev = Ev::ALL[c.below(5) as usize];
        let p = profile(ev);
        let ph = pick_ph(ev, c);
        let base = grammar::render(&gen::gen_expr(&p, c, p.max_depth));
        let (s, s2, kind): (String, String, String) = match sub {
            "superscript-digits" => {
                // b^N vs b followed by the superscript run, N a digit string of 1..22 digits (leading zeros allowed),
                // bases around 1 where a huge exponent still gives a finite, non-trivial power
                let bases = ["2", "10", "1.5", "0.5", "3", "0.9999999999999999", "1.0000000000000002", "0.99999999999", "1.00000000001", "1.000001", "0.999999", "(-1)", "(-0.9999999999999999)", "1.0000000000000004", "7"];
                let b = bases[c.below(bases.len() as u32) as usize];
                let n = 1 + c.below(22) as usize;
                let mut digits = String::new();
                for i in 0..n {
                    let d = if i == 0 && c.below(4) != 0 { 1 + c.below(9) } else { c.below(10) };
                    digits.push((b'0' + d as u8) as char);
                }
                if ev == Ev::Cpx || ev == Ev::I64 && b.contains('.') {
                    return None;
                }
                let tail = ["", "+1", "*2", ")"][c.below(3) as usize];
                let s = format!("{}^{}{}", b, digits, tail);
                let s2 = format!("{}{}{}", b, vocab::ascii_to_sup(&digits), tail);
                (s, s2, "superscript".into())
            }
            "ws-random" => {
                // well-formed, mutated or raw
                let s = match c.below(4) {
                    0 => gen::mutate(ev, &base, c).0,
                    1 => gen::gen_raw(c, 60),
                    _ => base,
                };
                let s2 = gen::sprinkle_ws(&s, c, 6);
                (s, s2, "whitespace".into())
            }
            "alias" => {
                // bias towards functions with aliases
                let mut p2 = p.clone();
                let aliased: Vec<_> = p2.funcs.iter().filter(|f| alias_of(f.name, 0).is_some()).copied().collect();
                for _ in 0..3 {
                    p2.funcs.extend(aliased.iter().copied());
                }
                let s = grammar::render(&gen::gen_expr(&p2, c, 4));
                let s = if c.below(4) == 0 { gen::mutate(ev, &s, c).0 } else { s };
                let s2 = alias_swap(ev, &s, c)?;
                (s, s2, "alias".into())
            }
            _ => {
                // bias towards the constructs that have an alternative spelling
                let mut p2 = p.clone();
                let special: Vec<_> = p2.funcs.iter().filter(|f| ["mod", "pow", "floor", "ceil"].contains(&f.name)).copied().collect();
                for _ in 0..5 {
                    p2.funcs.extend(special.iter().copied());
                }
                let base = if c.below(2) == 0 { grammar::render(&gen::gen_expr(&p2, c, p2.max_depth)) } else { base };
                let e = accept(ev, &base)?;
                match c.below(4) {
                    0 => {
                        let s2 = superscript_swap(ev, &base, c)?;
                        (base, s2, "superscript".into())
                    }
                    1 => {
                        let s2 = plus_insert(ev, &base, c)?;
                        (base, s2, "prefix +".into())
                    }
                    _ => {
                        let (s2, k) = tree_rewrite(ev, &e, c)?;
                        (base, s2, k.to_string())
                    }
                }
            }
        };
        if char_len(&s2) > 300 {
            return None;
        }
        let mut case = Case::new(ev, s, ph);
        case.aux = vec![s2, kind];
        Some(case)
    }
    fn check(&self, sub: &str, case: &Case, sc: &mut ShardCtx) -> Result<(), Failure> {
        let ev = case.ev;
        let s2 = match case.aux.first() {
            Some(s) => s,
            None => return Ok(()),
        };
        let kind = case.aux.get(1).map(|s| s.as_str()).unwrap_or("?");
        if sub == "rewrite" || sub == "long" || sub == "superscript-digits" {
            // the rewrites are only claimed for well-formed expressions, and the rewritten text must be well-formed too
            if accept(ev, &case.input).is_none() || accept(ev, s2).is_none() {
                sc.exclude("rewrite did not yield a well-formed pair");
                return Ok(());
            }
        }
        let a = match eval_normal(sc, ev, &case.input, &case.ph) {
            Some(o) => o,
            None => return Ok(()),
        };
        let b = match eval_normal(sc, ev, s2, &case.ph) {
            Some(o) => o,
            None => return Ok(()),
        };
        let kclass = if kind.starts_with("whitespace") { "whitespace" } else { kind };
        if !a.same(&b) {
            return Err(Failure::new(format!("{}/spelling/{}", ev.name(), kclass), format!("{:?} -> {}", case.input, a.show()), format!("{:?} -> {}", s2, b.show())));
        }
        sc.class(&format!("rewrite:{}", kclass));
        if kind.starts_with("whitespace") {
            for ch in s2.chars().filter(|c| vocab::is_ws(*c)) {
                sc.class(&format!("ws:U+{:04X}", ch as u32));
            }
        }
        let ntok = lex::lex(ev, &case.input).map(|t| t.len()).unwrap_or(0);
        if *s2 != case.input && (a.is_ok() || ntok >= 2) {
            sc.nontrivial(case.hash(), || serde_json::json!({"evaluator": ev.name(), "S": case.input, "S'": s2, "rewrite": kind, "placeholder": case.ph.show(), "outcome": a.show()}));
        }
        let _ = Val::I(0);
        Ok(())
    }
}
