//! C09 — "On Integer operands + - * % unary minus, abs, sgn, exact division, ^ with an Integer exponent
//! in 0..4294967295 and n! (0<=n<=20) return Integer(exact result) whenever that result fits in i64;
//! when it does not fit, or a division is inexact or by zero, the result is the Float obtained from the
//! operands' double values - never a wrapped integer or a panic. Any operation with a Float operand has
//! the numeric value of the IEEE double operation on the operands' values (2^0.5 is sqrt 2, 2.5^2 is
//! 6.25), and floor, ceil, round and trunc return the correctly rounded integer."

use super::c06;
use super::common::*;
use crate::api::{self, Ev, Val};
use crate::choice::Choices;
use crate::gen::{self, Profile};
use crate::grammar::{self, BinOp};
use crate::refeval::{self, numr};
use crate::run::{Case, Failure, Prop, ShardCtx, Sub, SubKind, Tier};
use std::sync::OnceLock;

pub struct C09Prop;
pub static C09: C09Prop = C09Prop;

fn float_lits() -> Vec<&'static str> {
    vec!["0.5", "2.4", "2.5", "2.6", "1.0", "3.0", "0.0", "2.0", "0.1", "1.5", "9007199254740994.0", "9223372036854775808.0", "4611686018427387904.0", "1000000000000000000000.0", "0.49999999999999994", "3.5", "4.5", "1e", "7.999999999999999"]
        .into_iter()
        .filter(|s| *s != "1e")
        .collect()
}

pub fn operand_pool() -> &'static Vec<String> {
    static CELL: OnceLock<Vec<String>> = OnceLock::new();
    CELL.get_or_init(|| {
        let mut v: Vec<String> = Vec::new();
        for i in [0i64, 1, -1, 2, -2, 3, 7, 10, 20, 21, 63, 64, 2147483648, 4294967296, 3037000499, 3037000500, -3037000500, 9007199254740993, 4611686018427387904, 9223372036854775807, -9223372036854775807, i64::MIN, 4294967295, 6, 12] {
            v.push(i64_expr(i));
        }
        for f in float_lits() {
            v.push(f.to_string());
            v.push(format!("(-{})", f));
        }
        for s in ["(0.0/0.0)", "(1.0/0.0)", "(-1.0/0.0)", "@"] {
            v.push(s.to_string());
        }
        // fractions spelled as quotients (x^(1/3) is pow with the double 1/3, not a cube root)
        for s in ["(1/3)", "(1/2)", "(2/3)", "(1/4)", "(-8)", "64", "27", "2.5"] {
            v.push(s.to_string());
        }
        v
    })
}

fn binary_cases() -> &'static Vec<String> {
    static CELL: OnceLock<Vec<String>> = OnceLock::new();
    CELL.get_or_init(|| {
        let p = operand_pool();
        let mut v = Vec::new();
        for a in p {
            for b in p {
                for op in ["+", "-", "*", "/", "%", "^"] {
                    v.push(format!("{}{}{}", a, op, b));
                }
                v.push(format!("pow({},{})", a, b));
                v.push(format!("mod({},{})", a, b));
            }
        }
        v
    })
}

fn unary_cases() -> &'static Vec<String> {
    static CELL: OnceLock<Vec<String>> = OnceLock::new();
    CELL.get_or_init(|| {
        let mut args: Vec<String> = operand_pool().clone();
        for k in -3..=3 {
            for d in ["5", "4", "6", "0", "49999999999999994"] {
                if k < 0 {
                    args.push(format!("(-{}.{})", -k, d));
                } else {
                    args.push(format!("{}.{}", k, d));
                    args.push(format!("(-{}.{})", k, d));
                }
            }
        }
        let mut v = Vec::new();
        for a in &args {
            for f in ["floor", "ceil", "round", "trunc", "truncate", "abs", "sgn", "sign", "signum"] {
                v.push(format!("{}({})", f, a));
            }
            v.push(format!("⌊{}⌋", a));
            v.push(format!("⌈{}⌉", a));
            v.push(format!("-{}", a));
            v.push(format!("{}²", a));
            v.push(format!("{}⁰", a));
            v.push(format!("{}⁶³", a));
            v.push(format!("{}⁶⁴", a));
        }
        for n in 0..=25 {
            v.push(format!("{}!", n));
        }
        // Integer and Float literals with redundant leading zeros (the value decides the variant, not the length of the text)
        for z in [1usize, 17, 18, 19, 20, 21, 30, 64, 100] {
            for d in ["42", "0", "9223372036854775807", "9223372036854775808", "7.5", "10"] {
                let lit = format!("{}{}", "0".repeat(z), d);
                v.push(format!("{}/6", lit));
                v.push(format!("{}-1", lit));
                v.push(format!("2^{}", lit));
                v.push(format!("-{}", lit));
            }
        }
        // every composition of two unary forms (a pair of operations that cancels numerically need not cancel in the
        // type: -(-MIN) is a Float)
        let forms = ["floor({})", "ceil({})", "round({})", "trunc({})", "abs({})", "sgn({})", "⌊{}⌋", "⌈{}⌉", "-{}", "-({})", "({})²", "+{}", "({})!"];
        for a in operand_pool() {
            for f in forms {
                for g in forms {
                    v.push(f.replace("{}", &g.replace("{}", a)));
                }
            }
        }
        // ... and one exact Integer step on top for the operands at the edge of i64 and of 2^53: an Integer kept where a
        // Float is due (or the reverse) is numerically invisible until the next operation rounds or does not
        let edge = [i64_expr(i64::MIN), i64_expr(i64::MAX), i64_expr(-i64::MAX), "9007199254740993".to_string(), "(-9007199254740993)".to_string(), "4611686018427387904".to_string(), "9223372036854775808.0".to_string(), "(-9223372036854775808.0)".to_string()];
        for a in &edge {
            for f in forms {
                for g in forms {
                    let inner = f.replace("{}", &g.replace("{}", a));
                    for tail in ["+1", "-1", "%10", "*3", "/3"] {
                        v.push(format!("{}{}", inner, tail));
                    }
                }
            }
        }
        v
    })
}

pub fn profile() -> Profile {
    let mut p = Profile::full(Ev::Num);
    p.funcs.retain(|f| ["abs", "sgn", "floor", "ceil", "round", "trunc", "pow", "mod"].contains(&f.canon));
    p.ops = vec![BinOp::Add, BinOp::Sub, BinOp::Mul, BinOp::Div, BinOp::Mod, BinOp::Pow];
    p.deg = false;
    p.consts = false;
    let mut lits: Vec<String> = c06::pool().into_iter().filter(|v| *v >= 0).map(|v| v.to_string()).collect();
    lits.extend(float_lits().into_iter().map(|s| s.to_string()));
    p.lits = lits;
    p.sups = ["2", "3", "0", "1", "62", "63", "64"].iter().map(|s| s.to_string()).collect();
    p.max_depth = 5;
    p
}

impl Prop for C09Prop {
    fn id(&self) -> &'static str {
        "C09"
    }
    fn rule(&self) -> String {
        "Well-formed eval_number expressions over + - * / % ^ pow mod, unary minus, abs sgn, floor ceil round trunc (and ⌊⌋ ⌈⌉), superscripts, n!. Exhaustive: every binary operator x (Integer pool ∪ Float pool ∪ NaN/inf ∪ @ with every placeholder)^2, every unary/rounding form x pool ∪ {k+0.5, k+-0.4, k.49999999999999994 : k=-3..3}, n! for n=0..25, every composition of two unary forms (13 x 13) x pool, and for the operands at the edge of i64 / 2^53 one more Integer step (+1, -1, %10, *3, /3) on top; long chains of 2..512 operands (i64::MAX+1+0+…+(-2): an intermediate overflow must turn the sum into a Float for good; 1e16+1.0+1.0…); random typed trees of depth <=5 beyond; after-failures: a set of plain expressions checked right after 1100 consecutive failing calls of one kind on the same thread (lexer, parser and evaluation errors under every operator and function form). Oracle: typed reference evaluator implementing C09 literally (Integer steps in i128; fits => Integer(exact), variant and value asserted; otherwise Float of the double operation; any Float operand => numeric value of the IEEE operation; rounding functions => numeric value of the rounded integer; Integer exponents outside 0..2^32-1 unspecified). non-trivial = the reference result is a Float/numeric value, or has magnitude >= 2^53, or the input uses a rounding function on a Float; distinct by (input, placeholder).".into()
    }
    fn subs(&self, tier: Tier) -> Vec<Sub> {
        vec![
            Sub { name: "binary", kind: SubKind::Enum { count: binary_cases().len() as u64 } },
            Sub { name: "unary", kind: SubKind::Enum { count: unary_cases().len() as u64 } },
            Sub { name: "long", kind: SubKind::Enum { count: super::long::all(true).iter().filter(|x| x.0 == Ev::Num).count() as u64 } },
            Sub { name: "after-failures", kind: SubKind::Enum { count: (failing_templates(Ev::Num).len() * probe_expressions(Ev::Num).len()) as u64 } },
            Sub { name: "tree", kind: SubKind::Random { cases: tier.pick(600_000, 30_000_000), len: 160 } },
        ]
    }
    fn gen_enum(&self, sub: &str, idx: u64, _tier: Tier) -> Option<Case> {
        if sub == "after-failures" {
            // the promised result must still come after many failing calls on the same thread
            let (ts, ps) = (failing_templates(Ev::Num), probe_expressions(Ev::Num));
            let mut case = Case::new(Ev::Num, ps[idx as usize % ps.len()].to_string(), Val::NI(5));
            case.aux = vec![ts.get(idx as usize / ps.len())?.clone()];
            return Some(case);
        }
        let s = match sub {
            "binary" => binary_cases().get(idx as usize)?.clone(),
            "long" => super::long::all(true).iter().filter(|x| x.0 == Ev::Num).nth(idx as usize)?.1.clone(),
            _ => unary_cases().get(idx as usize)?.clone(),
        };
        Some(Case::new(Ev::Num, s, Val::NI(0)))
    }
    fn gen(&self, _sub: &str, c: &mut dyn Choices) -> Option<Case> {
        let p = profile();
        let ph = pick_ph(Ev::Num, c);
        let s = grammar::render(&gen::gen_expr(&p, c, p.max_depth));
        if char_len(&s) > 256 {
            return None;
        }
        Some(Case::new(Ev::Num, s, ph))
    }
    fn check(&self, sub: &str, case: &Case, sc: &mut ShardCtx) -> Result<(), Failure> {
        if sub == "after-failures" {
            if let Some(t) = case.aux.first() {
                exhaust(sc, Ev::Num, t, &case.ph);
            }
        }
        let e = match accept(Ev::Num, &case.input) {
            Some(e) => e,
            None => {
                sc.exclude("not accepted by the reference parser");
                return Ok(());
            }
        };
        let phs: Vec<Val> = if sub != "tree" && case.input.contains('@') { ph_pool(Ev::Num) } else { vec![case.ph.clone()] };
        for ph in phs {
            let n = match numr::val_to_n(&ph) {
                Some(n) => n,
                None => continue,
            };
            let want = numr::eval(&e, n);
            let o = match eval_normal(sc, Ev::Num, &case.input, &ph) {
                Some(o) => o,
                None => continue,
            };
            match numr::agrees(want, &o) {
                None => sc.exclude("unspecified by C09"),
                Some(true) => {
                    let (cls, nt) = match want {
                        numr::RN::Exact(numr::N::I(i)) => ("Integer(exact)", i.unsigned_abs() >= 1 << 53),
                        numr::RN::Exact(numr::N::F(_)) => ("Float(fallback from Integer operands)", true),
                        numr::RN::Numeric(_) => ("numeric value of a Float operation", true),
                        _ => ("other", false),
                    };
                    sc.class(cls);
                    if nt {
                        let c2 = Case { ev: Ev::Num, input: case.input.clone(), ph: ph.clone(), aux: vec![] };
                        sc.nontrivial(c2.hash(), || sample(&c2, &o.show()));
                    }
                }
                Some(false) => {
                    let hd = localise(&e, &mut |x| {
                        let s = grammar::render(x);
                        matches!(refeval::exact_agrees(Ev::Num, x, &ph, &api::eval(Ev::Num, &s, &ph)), Some((false, _)))
                    });
                    return Err(Failure::new(format!("number/value/{}", hd), format!("{:?}", want), o.show()).with_case(Case { ev: Ev::Num, input: case.input.clone(), ph: ph.clone(), aux: case.aux.clone() }));
                }
            }
        }
        Ok(())
    }
}
