//! C11 — "min, max, avg and med/median (eval_f64, eval_i64, eval_decimal, eval_number) and gcd, lcm
//! (eval_i64) accept any number >= 1 of argument expressions and return the minimum, maximum, arithmetic
//! mean, median (mean of the two middle values for even counts; means truncated toward zero in eval_i64)
//! and greatest common divisor / least common multiple of the evaluated (finite) arguments, independent
//! of the order in which the arguments are written. avg() of no arguments is 0, every other aggregate
//! rejects an empty list with Err, and an argument that fails to evaluate makes the aggregate return Err."
//!
//! Oracle: computed directly from the multiset of argument values (scaled integers k/D).

use super::common::*;
use crate::api::{Ev, Outcome, Val};
use crate::choice::Choices;
use crate::refeval::decr::{self, DecV};
use crate::refeval::i64r;
use crate::run::{Case, Failure, Prop, ShardCtx, Sub, SubKind, Tier};

pub struct C11Prop;
pub static C11: C11Prop = C11Prop;

const EVS: [Ev; 4] = [Ev::F64, Ev::I64, Ev::Dec, Ev::Num];

fn funcs(ev: Ev) -> Vec<&'static str> {
    let mut v = vec!["min", "max", "avg", "med", "median"];
    if ev == Ev::I64 {
        v.push("gcd");
        v.push("lcm");
    }
    v
}

/// denominator of the scaled-integer argument values
fn denom(ev: Ev) -> i64 {
    match ev {
        Ev::I64 => 1,
        Ev::Dec => 10_000,
        _ => 1024,
    }
}

/// exact literal text of k/D for the evaluator (non-negative k)
fn lit(ev: Ev, k: i64, style: u32) -> String {
    let d = denom(ev);
    debug_assert!(k >= 0);
    match ev {
        Ev::I64 => format!("{}", k),
        Ev::Dec => {
            if k % d == 0 && style % 2 == 0 {
                format!("{}", k / d)
            } else {
                // fixed scale 4, optionally trimmed
                let s = format!("{}.{:04}", k / d, k % d);
                if style % 3 == 0 {
                    s.trim_end_matches('0').trim_end_matches('.').to_string()
                } else {
                    s
                }
            }
        }
        _ => {
            if k % d == 0 && (ev == Ev::F64 || style % 2 == 0) {
                // Integer spelling (eval_number: Integer variant)
                format!("{}", k / d)
            } else {
                // exact binary fraction: k/1024 has at most 10 fractional digits
                let frac = (k % d) as u128 * 10u128.pow(10) / d as u128;
                let s = format!("{}.{:010}", k / d, frac);
                let t = s.trim_end_matches('0');
                if t.ends_with('.') {
                    format!("{}0", t)
                } else {
                    t.to_string()
                }
            }
        }
    }
}

/// argument text for value k/D in a spelling variant
fn arg_text(ev: Ev, k: i64, style: u32) -> String {
    let body = lit(ev, k.abs(), style);
    let base = if k < 0 { format!("-{}", body) } else { body };
    match style % 7 {
        0 | 1 | 2 => base,
        3 => format!("({})", base),
        4 => format!("{}+0", if k < 0 { format!("({})", base) } else { base }),
        5 => format!("max({})", base),
        _ => {
            if k < 0 {
                format!("(-{})", lit(ev, -k, style))
            } else {
                format!("+{}", base)
            }
        }
    }
}

#[derive(Debug)]
enum Want {
    /// exact scaled value num/den (den > 0): f64/number compare the correctly rounded double, decimal exact / 1e-27, i64 den must be 1
    Ratio(i128, i128),
    Int(i64_or),
    Err,
    Skip,
}

#[allow(non_camel_case_types)]
#[derive(Debug)]
enum i64_or {
    Must(i64),
    ValueOrErr(i64),
}

fn expected(ev: Ev, f: &str, ks: &[i64]) -> Want {
    let d = denom(ev) as i128;
    let n = ks.len() as i128;
    if ks.is_empty() {
        return if f == "avg" { Want::Ratio(0, 1) } else { Want::Err };
    }
    let mut sorted: Vec<i64> = ks.to_vec();
    sorted.sort();
    if ev == Ev::I64 {
        // delegate the integer conventions (truncation, overflow) to the i128 reference
        let call = crate::grammar::E::Call(
            match f {
                "median" => "median",
                "min" => "min",
                "max" => "max",
                "avg" => "avg",
                "med" => "med",
                "gcd" => "gcd",
                _ => "lcm",
            },
            ks.iter().map(|k| if *k < 0 { crate::grammar::E::Neg(Box::new(crate::grammar::E::Lit(format!("{}", -(*k as i128))))) } else { crate::grammar::E::Lit(format!("{}", k)) }).collect(),
        );
        return match i64r::eval(&call, 0) {
            i64r::RI::Val(v) => Want::Int(i64_or::Must(v)),
            i64r::RI::ValOrErr(v) => Want::Int(i64_or::ValueOrErr(v)),
            i64r::RI::Err => Want::Err,
            i64r::RI::Unspec(_) => Want::Skip,
        };
    }
    match f {
        "min" => Want::Ratio(sorted[0] as i128, d),
        "max" => Want::Ratio(*sorted.last().unwrap() as i128, d),
        "avg" => Want::Ratio(ks.iter().map(|k| *k as i128).sum::<i128>(), d * n),
        _ => {
            let m = sorted.len();
            if m % 2 == 1 {
                Want::Ratio(sorted[m / 2] as i128, d)
            } else {
                Want::Ratio(sorted[m / 2 - 1] as i128 + sorted[m / 2] as i128, 2 * d)
            }
        }
    }
}

fn matches_ratio(ev: Ev, num: i128, den: i128, o: &Outcome) -> bool {
    match (ev, o) {
        (Ev::F64, Outcome::Ok(Val::F(g))) => {
            // num/den with num a small integer and den = D*n: one correctly rounded division of exact doubles
            // (num/D is exact in binary, so (num/D)/n is a single rounding)
            let want = (num as f64 / 1024.0) / (den / 1024) as f64;
            (want == 0.0 && *g == 0.0) || g.to_bits() == want.to_bits()
        }
        (Ev::Num, Outcome::Ok(v)) => {
            let want = (num as f64 / 1024.0) / (den / 1024) as f64;
            match v {
                Val::NI(i) => want.fract() == 0.0 && *i as f64 == want,
                Val::NF(g) => *g == want,
                _ => false,
            }
        }
        (Ev::Dec, o) => {
            let a = DecV { n: crate::big::BigI::from_i128(num), scale: 0 };
            let b = DecV { n: crate::big::BigI::from_i128(den), scale: 0 };
            decr::agrees(&decr::div(&a, &b), o) == Some(true)
        }
        _ => false,
    }
}

fn pool(ev: Ev) -> Vec<i64> {
    let d = denom(ev);
    let mut v: Vec<i64> = [-7i64, -2, -1, 0, 1, 2, 3, 5, 12].iter().map(|x| x * d).collect();
    if ev != Ev::I64 {
        v.push(d / 2);
        v.push(5 * d / 2);
    }
    v
}

/// Large values (2^53 .. 2^63) in Integer and Float spellings: comparisons must be exact, not through doubles.
fn large_items(ev: Ev) -> Vec<(i128, String)> {
    let ints: Vec<i128> = vec![(1 << 53) - 1, 1 << 53, (1 << 53) + 1, (1 << 53) + 2, (1 << 53) + 3, 1 << 62, (1 << 63) - 1025, (1 << 63) - 1024, (1 << 63) - 1, -((1 << 53) + 1), -(1 << 53), -(1i128 << 63), -((1 << 63) - 1)];
    let mut v: Vec<(i128, String)> = Vec::new();
    for n in ints {
        let int_text = if n == -(1i128 << 63) { "(-9223372036854775807-1)".to_string() } else if n < 0 { format!("(-{})", -n) } else { format!("{}", n) };
        v.push((n, int_text));
        if ev == Ev::Num && (n as f64) as i128 == n {
            // exactly representable as a double: Float spelling
            v.push((n, if n < 0 { format!("(-{}.0)", -n) } else { format!("{}.0", n) }));
        }
    }
    if ev == Ev::Num {
        v.push((1i128 << 63, "9223372036854775808.0".to_string()));
        v.push((1i128 << 64, "18446744073709551616.0".to_string()));
    }
    v
}

fn large_cases() -> &'static Vec<Case> {
    static CELL: std::sync::OnceLock<Vec<Case>> = std::sync::OnceLock::new();
    CELL.get_or_init(|| {
        let mut out = Vec::new();
        for ev in [Ev::Num, Ev::I64] {
            let items = large_items(ev);
            for f in ["min", "max", "med", "median"] {
                for a in &items {
                    for b in &items {
                        if f == "min" || f == "max" {
                            let mut c = Case::new(ev, format!("{}({},{})", f, a.1, b.1), Val::default_for(ev));
                            c.aux = vec![f.to_string(), format!("{} {}", a.0, b.0), "large".into()];
                            out.push(c);
                        }
                        for x in items.iter().step_by(3) {
                            let mut c = Case::new(ev, format!("{}({},{},{})", f, a.1, b.1, x.1), Val::default_for(ev));
                            c.aux = vec![f.to_string(), format!("{} {} {}", a.0, b.0, x.0), "large".into()];
                            out.push(c);
                        }
                    }
                }
            }
        }
        out
    })
}

/// odd-count median, min and max of the placeholder itself: the result must be exactly the placeholder
fn placeholder_cases() -> &'static Vec<Case> {
    static CELL: std::sync::OnceLock<Vec<Case>> = std::sync::OnceLock::new();
    CELL.get_or_init(|| {
        let mut out = Vec::new();
        for ev in EVS {
            for ph in ph_pool(ev) {
                if !ph.is_finite() {
                    continue;
                }
                // the placeholder as a bare argument next to literals (argument lists read straight from the tree):
                // integer-valued placeholders, judged like any other list
                if let Val::I(p) = ph {
                    for f in funcs(ev) {
                        for (form, ks) in [("F(@,6)", vec![p, 6]), ("F(6,@)", vec![6, p]), ("F(@,@,4)", vec![p, p, 4]), ("F(9,@,-6)", vec![9, p, -6]), ("F(@,-4)", vec![p, -4])] {
                            let mut c = Case::new(ev, form.replace('F', f), ph.clone());
                            c.aux = vec![f.to_string(), ks.iter().map(|k| k.to_string()).collect::<Vec<_>>().join(" ")];
                            out.push(c);
                        }
                    }
                }
                for f in ["min", "max", "med", "median", "avg"] {
                    for form in ["F(@)", "F(@,@,@)", "F((@))"] {
                        if f == "avg" && form != "F(@)" {
                            continue;
                        }
                        let mut c = Case::new(ev, form.replace('F', f), ph.clone());
                        c.aux = vec![f.to_string(), String::new(), "placeholder".into()];
                        out.push(c);
                    }
                }
            }
        }
        // lists of one repeated value that uses every digit a Decimal has: min, max, the median and the mean of n copies
        // of a are a. Only values whose double is itself representable (a+a and (a+a)/2 exact): beyond that the sum is rounded
        // by rust_decimal and C11 does not promise more than C07 does (med(7.0000000000000000000000000001, same) is 1e-28 off)
        for a in ["0.3333333333333333333333333333", "0.0000000000000000000000000001", "20000000000000000000000000001", "20000000000000000000000000005", "39614081257132168796771975167", "0.0000000000000000000000000003", "1.0000000000000000000000000005"] {
            for f in ["min", "max", "med", "median", "avg"] {
                for n in [2usize, 3, 4] {
                    if f == "avg" && n != 2 {
                        continue; // a*3 may need more than 96 bits
                    }
                    let list: Vec<&str> = (0..n).map(|_| a).collect();
                    let mut c = Case::new(Ev::Dec, format!("{}({})", f, list.join(",")), Val::D(dec(a)));
                    c.aux = vec![f.to_string(), String::new(), "placeholder".into()];
                    out.push(c);
                }
            }
        }
        out
    })
}

/// lists of 2..40 large whole numbers (sums that leave i64 or 2^53 although every argument and the mean are far inside)
fn big_list_cases() -> &'static Vec<Case> {
    static CELL: std::sync::OnceLock<Vec<Case>> = std::sync::OnceLock::new();
    CELL.get_or_init(|| {
        let mut out = Vec::new();
        for ev in EVS {
            for v in [950000000000000000i64, 4611686018427387904, 999999999999999999, 9007199254740993, 922337203685477581, 3000000000000000000, -950000000000000000] {
                for n in [2usize, 5, 9, 10, 11, 16, 20, 40] {
                    for alt in [None, Some(1i64), Some(-1)] {
                        let ks: Vec<i64> = (0..n).map(|i| if i % 2 == 1 { alt.map(|a| a * v.signum()).unwrap_or(v) } else { v }).collect();
                        for f in ["avg", "med", "min", "max"] {
                            let args: Vec<String> = ks.iter().map(|k| if *k < 0 { format!("(0-{})", -(*k as i128)) } else { k.to_string() }).collect();
                            let mut c = Case::new(ev, format!("{}({})", f, args.join(",")), Val::default_for(ev));
                            c.aux = vec![f.to_string(), ks.iter().map(|k| k.to_string()).collect::<Vec<_>>().join(" "), "big-list".into()];
                            out.push(c);
                        }
                    }
                }
            }
        }
        out
    })
}

/// eval_decimal min / max / odd median over every ordered tuple (3 and 5 arguments) of values whose magnitudes and
/// scales are far apart (28 fractional digits next to 11-digit and 29-digit integers): the result is one of the
/// arguments, whatever the order they are written in (keys that overflow when brought to a common scale)
fn dec_mixed_cases() -> &'static Vec<Case> {
    static CELL: std::sync::OnceLock<Vec<Case>> = std::sync::OnceLock::new();
    CELL.get_or_init(|| {
        let vals = ["0.3333333333333333333333333333", "30000000000", "20000000000", "3.1415926535897932384626433833", "79228162514264337593543950335", "(-30000000000)", "0.0000000000000000000000000001", "123456789012345678", "(-20000000000.5)", "5"];
        let mut out = Vec::new();
        let n = vals.len();
        for f in ["min", "max", "med", "median"] {
            for a in 0..n {
                for b in 0..n {
                    for c in 0..n {
                        let mut k = Case::new(Ev::Dec, format!("{}({},{},{})", f, vals[a], vals[b], vals[c]), Val::D(dec("0")));
                        k.aux = vec![f.to_string(), format!("{} {} {}", a, b, c), "dec-mixed".into()];
                        out.push(k);
                    }
                }
            }
            // five arguments: thinned
            for a in 0..n {
                for b in 0..n {
                    for c in (0..n).step_by(3) {
                        let (d, e) = ((a + 3) % n, (b + 5) % n);
                        let mut k = Case::new(Ev::Dec, format!("{}({},{},{},{},{})", f, vals[a], vals[b], vals[c], vals[d], vals[e]), Val::D(dec("0")));
                        k.aux = vec![f.to_string(), format!("{} {} {} {} {}", a, b, c, d, e), "dec-mixed".into()];
                        out.push(k);
                    }
                }
            }
        }
        out
    })
}

fn tuple_space(n: u64, maxlen: u32) -> u64 {
    (1..=maxlen).map(|l| n.pow(l)).sum()
}

fn decode_tuple(mut idx: u64, n: u64, maxlen: u32) -> Vec<usize> {
    for l in 1..=maxlen {
        let sp = n.pow(l);
        if idx < sp {
            let mut v = Vec::new();
            for _ in 0..l {
                v.push((idx % n) as usize);
                idx /= n;
            }
            return v;
        }
        idx -= sp;
    }
    vec![]
}

fn encode(ev: Ev, f: &str, ks: &[i64], style_seed: u32) -> Case {
    let args: Vec<String> = ks.iter().enumerate().map(|(i, k)| arg_text(ev, *k, style_seed.wrapping_mul(31).wrapping_add(i as u32 * 7))).collect();
    let mut case = Case::new(ev, format!("{}({})", f, args.join(",")), Val::default_for(ev));
    case.aux = vec![f.to_string(), ks.iter().map(|k| k.to_string()).collect::<Vec<_>>().join(" ")];
    case
}

impl Prop for C11Prop {
    fn id(&self) -> &'static str {
        "C11"
    }
    fn rule(&self) -> String {
        "Cases are (evaluator, aggregate, argument list). Exhaustive: every ordered argument tuple (hence every permutation of every multiset) of length 1..4 (thorough: 1..5) over the pool {-7,-2,-1,0,1,2,3,5,12 (+0.5, 2.5 outside i64)} for min max avg med median (f64, i64, decimal, number) and gcd lcm (i64); random lists of length 1..8 over dyadic rationals k/1024 (f64, number: every partial sum exact), scale-4 decimals, and the wide i64 pool, with arguments spelled as literals, bracketed, prefixed, as sums and as nested aggregates (number: Integer and Float spellings mixed); random lists of 9..130 small values in scrambled order; min/max/odd-count median/one-element mean of every finite pool placeholder (incl. f64::MAX, i64::MIN, Decimal::MAX) must be that placeholder; every position of a failing argument (w(-5), 1/0); empty lists; exhaustive pairs/triples of values between 2^53 and 2^64 in Integer and (where exactly representable) Float spellings for min, max and odd-count med in eval_number and eval_i64, compared exactly. Oracle: computed from the multiset of argument values: min/max exact; mean = exact sum / n (f64/number: the correctly rounded double, decimal: exact when representable else within 1e-27, i64: truncated toward zero, Err acceptable iff a partial sum leaves i64); median = middle value or mean of the two middle values; gcd >= 0 (gcd(0,0)=0), lcm = |a*b|/gcd with lcm(0,x)=0, Err iff the result leaves i64. nested: an aggregate (min/max/odd median) as one or two of the arguments of any aggregate, in any position, expected = the flat list with the inner value; after every failing-argument case the same aggregate is evaluated on a healthy list on the same thread. non-trivial = length >= 2 and not all arguments equal; distinct by (evaluator, function, list).".into()
    }
    fn subs(&self, tier: Tier) -> Vec<Sub> {
        let l = tier.pick(4, 5) as u32;
        let total: u64 = EVS.iter().map(|ev| funcs(*ev).len() as u64 * tuple_space(pool(*ev).len() as u64, l)).sum();
        vec![
            Sub { name: "tuples", kind: SubKind::Enum { count: total } },
            Sub { name: "random", kind: SubKind::Random { cases: tier.pick(400_000, 20_000_000), len: 60 } },
            Sub { name: "failing", kind: SubKind::Enum { count: 4 * 7 * 5 * 5 + 4 * 7 } },
            Sub { name: "large", kind: SubKind::Enum { count: large_cases().len() as u64 } },
            Sub { name: "long-lists", kind: SubKind::Random { cases: tier.pick(60_000, 3_000_000), len: 300 } },
            Sub { name: "placeholder", kind: SubKind::Enum { count: placeholder_cases().len() as u64 } },
            Sub { name: "many-calls", kind: SubKind::Enum { count: 4 * 4 * 10 } },
            Sub { name: "big-lists", kind: SubKind::Enum { count: big_list_cases().len() as u64 } },
            Sub { name: "dec-mixed", kind: SubKind::Enum { count: dec_mixed_cases().len() as u64 } },
            Sub { name: "nested", kind: SubKind::Random { cases: tier.pick(150_000, 5_000_000), len: 80 } },
        ]
    }
    fn gen_enum(&self, sub: &str, mut idx: u64, tier: Tier) -> Option<Case> {
        if sub == "large" {
            return large_cases().get(idx as usize).cloned();
        }
        if sub == "placeholder" {
            return placeholder_cases().get(idx as usize).cloned();
        }
        if sub == "dec-mixed" {
            return dec_mixed_cases().get(idx as usize).cloned();
        }
        if sub == "big-lists" {
            return big_list_cases().get(idx as usize).cloned();
        }
        if sub == "many-calls" {
            // many aggregate calls side by side in one expression: f(1,3)+f(2,4)+…; nothing is nested, every call is small
            let ev = EVS[(idx % 4) as usize];
            let f = ["min", "max", "avg", "med"][(idx / 4) as usize % 4];
            let n = [2usize, 50, 100, 127, 128, 129, 130, 200, 257, 400][(idx / 16) as usize % 10];
            let terms: Vec<String> = (0..n).map(|k| format!("{}({},{})", f, k + 1, k + 3)).collect();
            let mut c = Case::new(ev, terms.join("+"), Val::default_for(ev));
            c.aux = vec![f.to_string(), n.to_string(), "many-calls".into()];
            return Some(c);
        }
        if sub == "failing" {
            // (ev, func, length 1..=5, failing position) and empty lists
            let ev = EVS[(idx % 4) as usize];
            idx /= 4;
            let fs = funcs(ev);
            let f = fs[(idx % 7) as usize % fs.len()];
            idx /= 7;
            if idx >= 25 {
                let mut case = Case::new(ev, format!("{}()", f), Val::default_for(ev));
                case.aux = vec![f.to_string(), "".into(), "empty".into()];
                return Some(case);
            }
            let len = 1 + (idx % 5) as usize;
            let pos = ((idx / 5) % 5) as usize % len;
            let bad = if ev == Ev::I64 { "1/0" } else if pos % 2 == 0 { "w(-5)" } else { "1/0*w(-5)" };
            let args: Vec<String> = (0..len).map(|i| if i == pos { bad.to_string() } else { format!("{}", i + 1) }).collect();
            let mut case = Case::new(ev, format!("{}({})", f, args.join(",")), Val::default_for(ev));
            case.aux = vec![f.to_string(), "".into(), "failing".into()];
            return Some(case);
        }
        let l = tier.pick(4, 5) as u32;
        for ev in EVS {
            let p = pool(ev);
            let sp = tuple_space(p.len() as u64, l);
            for f in funcs(ev) {
                if idx < sp {
                    let t = decode_tuple(idx, p.len() as u64, l);
                    let ks: Vec<i64> = t.iter().map(|i| p[*i]).collect();
                    return Some(encode(ev, f, &ks, (idx % 1000) as u32));
                }
                idx -= sp;
            }
        }
        None
    }
    fn gen(&self, sub: &str, c: &mut dyn Choices) -> Option<Case> {
        let ev = EVS[c.below(4) as usize];
        let fs = funcs(ev);
        let f = fs[c.below(fs.len() as u32) as usize];
        if sub == "long-lists" {
            // 9..130 small values in scrambled order (selection algorithms, fast paths for long lists)
            let n = 9 + c.below(122) as usize;
            let d = denom(ev);
            let ks: Vec<i64> = (0..n).map(|_| (c.below(199) as i64 - 99) * d).collect();
            let args: Vec<String> = ks.iter().map(|k| if *k < 0 { format!("-{}", -k / d) } else { format!("{}", k / d) }).collect();
            let mut case = Case::new(ev, format!("{}({})", f, args.join(",")), Val::default_for(ev));
            case.aux = vec![f.to_string(), ks.iter().map(|k| k.to_string()).collect::<Vec<_>>().join(" ")];
            return Some(case);
        }
        if sub == "nested" {
            // an aggregate among the arguments of an aggregate, in any position, possibly twice (scratch buffers and
            // accumulators shared between the calls): the inner call is a min/max/odd median, so its value is one of its
            // arguments and the outer expectation is that of the flat list with the inner value in that position
            let d = denom(ev);
            let n = 2 + c.below(5) as usize;
            let mut ks: Vec<i64> = (0..n).map(|_| (c.below(41) as i64 - 20) * d + if ev == Ev::I64 { 0 } else { c.below(d as u32) as i64 * (c.below(2) as i64) }).collect();
            let mut texts: Vec<String> = ks.iter().enumerate().map(|(i, k)| arg_text(ev, *k, i as u32 % 3)).collect();
            let inner_count = 1 + c.below(2) as usize;
            for _ in 0..inner_count {
                let pos = c.below(n as u32) as usize;
                let g = ["min", "max", "med", "median"][c.below(4) as usize];
                let m = [1usize, 3, 5, 2, 4][c.below(if g.starts_with("med") { 3 } else { 5 }) as usize];
                let ks2: Vec<i64> = (0..m).map(|_| (c.below(41) as i64 - 20) * d).collect();
                let mut sorted = ks2.clone();
                sorted.sort();
                let v = match g {
                    "min" => sorted[0],
                    "max" => sorted[m - 1],
                    _ => sorted[m / 2],
                };
                ks[pos] = v;
                texts[pos] = format!("{}({})", g, ks2.iter().enumerate().map(|(i, k)| arg_text(ev, *k, i as u32 % 3)).collect::<Vec<_>>().join(","));
            }
            let mut case = Case::new(ev, format!("{}({})", f, texts.join(",")), Val::default_for(ev));
            case.aux = vec![f.to_string(), ks.iter().map(|k| k.to_string()).collect::<Vec<_>>().join(" ")];
            return Some(case);
        }
        let n = 1 + c.below(8) as usize;
        let d = denom(ev);
        let ks: Vec<i64> = (0..n)
            .map(|_| match ev {
                Ev::I64 => {
                    if c.below(3) == 0 {
                        let p = i64_pool();
                        p[c.below(p.len() as u32) as usize]
                    } else {
                        c.below(2001) as i64 - 1000
                    }
                }
                _ => {
                    // k/D with |k| < 2^21: dyadic (or scale-4 decimal) values of magnitude < 2048
                    let k = c.below(1 << 22) as i64 - (1 << 21);
                    if c.below(3) == 0 {
                        (k / d) * d
                    } else {
                        k
                    }
                }
            })
            .collect();
        Some(encode(ev, f, &ks, c.below(100000)))
    }
    fn check(&self, _sub: &str, case: &Case, sc: &mut ShardCtx) -> Result<(), Failure> {
        let ev = case.ev;
        let f = case.aux.first().cloned().unwrap_or_default();
        let canon = if f == "median" { "med" } else { f.as_str() };
        if case.aux.get(2).map(|s| s == "failing").unwrap_or(false) {
            // "an argument that fails to evaluate makes the aggregate return Err": a panic is not a returned Err
            let o = eval(sc, ev, &case.input, &case.ph);
            if let Outcome::Panic(_, _) = o {
                return Err(Failure::new(format!("{}/aggregate-failing-argument/{}", ev.name(), canon), "Err (an argument fails to evaluate)", o.show()));
            }
        }
        let o = match eval_normal(sc, ev, &case.input, &case.ph) {
            Some(o) => o,
            None => return Ok(()),
        };
        match case.aux.get(2).map(|s| s.as_str()) {
            Some("empty") => {
                let ok = if canon == "avg" {
                    match &o {
                        Outcome::Ok(v) => v.as_f64() == 0.0,
                        _ => false,
                    }
                } else {
                    o.is_err()
                };
                if !ok {
                    return Err(Failure::new(format!("{}/aggregate-empty/{}", ev.name(), canon), if canon == "avg" { "Ok(0)" } else { "Err" }, o.show()));
                }
                sc.class("empty list");
                sc.nontrivial(case.hash(), || sample(case, &o.show()));
                return Ok(());
            }
            Some("large") => {
                let vals: Vec<i128> = case.aux[1].split_whitespace().filter_map(|t| t.parse().ok()).collect();
                let mut sorted = vals.clone();
                sorted.sort();
                let want = match canon {
                    "min" => sorted[0],
                    "max" => *sorted.last().unwrap(),
                    _ => sorted[sorted.len() / 2],
                };
                let ok = match &o {
                    Outcome::Ok(Val::I(g)) | Outcome::Ok(Val::NI(g)) => *g as i128 == want,
                    Outcome::Ok(Val::NF(g)) => g.is_finite() && g.fract() == 0.0 && g.abs() < 1e30 && *g as i128 == want,
                    _ => false,
                };
                if !ok {
                    return Err(Failure::new(format!("{}/aggregate-large/{}", ev.name(), canon), format!("{} exactly (argument values {:?})", want, vals), o.show()));
                }
                sc.class(&format!("{}:{} (values beyond 2^53)", ev.name(), canon));
                if vals.iter().any(|v| *v != vals[0]) {
                    sc.nontrivial(case.hash(), || sample(case, &o.show()));
                }
                return Ok(());
            }
            Some("placeholder") => {
                // min / max / odd-count median / one-element mean of copies of p is p (numerically; zero of either sign)
                let ok = match &o {
                    Outcome::Ok(v) => {
                        let (a, b) = (v.as_f64(), case.ph.as_f64());
                        match (v, &case.ph) {
                            // eval_number's mean is a double computation: only its (rounded) numeric value is fixed
                            (Val::NI(_), Val::NI(_)) | (Val::NF(_), Val::NI(_)) if canon == "avg" => a == b,
                            (Val::I(x), Val::I(y)) | (Val::NI(x), Val::NI(y)) => x == y,
                            (Val::D(x), Val::D(y)) => x == y,
                            _ => a == b,
                        }
                    }
                    _ => false,
                };
                if !ok {
                    return Err(Failure::new(format!("{}/aggregate-of-placeholder/{}", ev.name(), canon), format!("{} (the placeholder itself)", case.ph.show()), o.show()));
                }
                sc.class(&format!("{}:{} of the placeholder", ev.name(), canon));
                sc.nontrivial(case.hash(), || sample(case, &o.show()));
                return Ok(());
            }
            Some("big-list") if ev != Ev::I64 => {
                // exact rational value of the aggregate; the evaluator's sum may round, so 1e-12 relative (Decimal: exact)
                let ks: Vec<i128> = case.aux[1].split_whitespace().filter_map(|t| t.parse().ok()).collect();
                let mut sorted = ks.clone();
                sorted.sort();
                let n = ks.len() as i128;
                let (num, den): (i128, i128) = match canon {
                    "min" => (sorted[0], 1),
                    "max" => (sorted[sorted.len() - 1], 1),
                    "avg" => (ks.iter().sum(), n),
                    _ => {
                        if n % 2 == 1 {
                            (sorted[(n / 2) as usize], 1)
                        } else {
                            (sorted[(n / 2 - 1) as usize] + sorted[(n / 2) as usize], 2)
                        }
                    }
                };
                let want = num as f64 / den as f64;
                let ok = match &o {
                    Outcome::Ok(Val::D(g)) => {
                        use rust_decimal::prelude::ToPrimitive;
                        (g.to_f64().unwrap_or(f64::NAN) - want).abs() <= 1e-12 * want.abs()
                    }
                    Outcome::Ok(v) => (v.as_f64() - want).abs() <= 1e-12 * want.abs(),
                    _ => false,
                };
                if !ok {
                    return Err(Failure::new(format!("{}/aggregate-big-list/{}", ev.name(), canon), format!("{:?} within 1e-12 relative (exact value {}/{})", want, num, den), o.show()));
                }
                sc.class(&format!("{}:{} of large whole numbers", ev.name(), canon));
                sc.nontrivial(case.hash(), || sample(case, &o.show()));
                return Ok(());
            }
            Some("many-calls") => {
                let n: i128 = case.aux[1].parse().unwrap_or(0);
                // sum over k = 0..n-1 of min = k+1, max = k+3, avg = med = k+2
                let base = n * (n - 1) / 2;
                let want = match canon {
                    "min" => base + n,
                    "max" => base + 3 * n,
                    _ => base + 2 * n,
                };
                let ok = match &o {
                    Outcome::Ok(Val::I(g)) | Outcome::Ok(Val::NI(g)) => *g as i128 == want,
                    Outcome::Ok(v) => v.as_f64() == want as f64,
                    _ => false,
                };
                if !ok {
                    return Err(Failure::new(format!("{}/aggregate-many-calls/{}", ev.name(), canon), format!("{} (sum of {} calls)", want, n), o.show()));
                }
                sc.class(&format!("{}:{} x many calls", ev.name(), canon));
                sc.nontrivial(case.hash(), || sample(case, &o.show()));
                return Ok(());
            }
            Some("dec-mixed") => {
                let vals = ["0.3333333333333333333333333333", "30000000000", "20000000000", "3.1415926535897932384626433833", "79228162514264337593543950335", "-30000000000", "0.0000000000000000000000000001", "123456789012345678", "-20000000000.5", "5"];
                let idxs: Vec<usize> = case.aux[1].split_whitespace().filter_map(|t| t.parse().ok()).collect();
                let mut ds: Vec<rust_decimal::Decimal> = idxs.iter().map(|i| dec(vals[*i])).collect();
                // the reference order: rust_decimal's Ord on values that were parsed, not computed (cross-checked below with f64)
                ds.sort();
                for w in ds.windows(2) {
                    use rust_decimal::prelude::ToPrimitive;
                    if w[0].to_f64().unwrap_or(0.0) > w[1].to_f64().unwrap_or(0.0) {
                        sc.exclude("reference order disagrees with its f64 image");
                        return Ok(());
                    }
                }
                let want = match canon {
                    "min" => ds[0],
                    "max" => ds[ds.len() - 1],
                    _ => ds[ds.len() / 2],
                };
                let ok = matches!(&o, Outcome::Ok(Val::D(g)) if *g == want);
                if !ok {
                    return Err(Failure::new(format!("decimal/aggregate-mixed-scale/{}", canon), format!("{} (one of the arguments)", want), o.show()));
                }
                sc.class(&format!("decimal:{} over mixed scales", canon));
                sc.nontrivial(case.hash(), || sample(case, &o.show()));
                return Ok(());
            }
            Some("failing") => {
                if !o.is_err() {
                    return Err(Failure::new(format!("{}/aggregate-failing-argument/{}", ev.name(), canon), "Err (an argument fails to evaluate)", o.show()));
                }
                sc.class("failing argument");
                sc.nontrivial(case.hash(), || sample(case, &o.show()));
                // the next call of the same aggregate on this thread starts from a clean slate
                let d = denom(ev);
                let ks = [30 * d, 10 * d, 20 * d];
                let next = format!("{}(30,10,20)", f);
                if let Some(o2) = eval_normal(sc, ev, &next, &case.ph) {
                    let ok = match expected(ev, &f, &ks) {
                        Want::Err => o2.is_err(),
                        Want::Int(i64_or::Must(v)) => matches!(&o2, Outcome::Ok(Val::I(g)) if *g == v),
                        Want::Int(i64_or::ValueOrErr(v)) => o2.is_err() || matches!(&o2, Outcome::Ok(Val::I(g)) if *g == v),
                        Want::Ratio(n, dd) => matches_ratio(ev, n, dd, &o2),
                        Want::Skip => true,
                    };
                    if !ok {
                        return Err(Failure::new(format!("{}/aggregate-after-failure/{}", ev.name(), canon), format!("the {} of 30, 10, 20", canon), format!("{} right after {:?} returned Err", o2.show(), case.input)));
                    }
                }
                return Ok(());
            }
            _ => {}
        }
        let ks: Vec<i64> = case.aux.get(1).map(|s| s.split_whitespace().filter_map(|t| t.parse().ok()).collect()).unwrap_or_default();
        let want = expected(ev, &f, &ks);
        let ok = match &want {
            Want::Skip => {
                sc.exclude("unspecified");
                return Ok(());
            }
            Want::Err => o.is_err(),
            Want::Int(i64_or::Must(v)) => matches!(&o, Outcome::Ok(Val::I(g)) if g == v),
            Want::Int(i64_or::ValueOrErr(v)) => o.is_err() || matches!(&o, Outcome::Ok(Val::I(g)) if g == v),
            Want::Ratio(n, d) => matches_ratio(ev, *n, *d, &o),
        };
        if !ok {
            return Err(Failure::new(format!("{}/aggregate/{}", ev.name(), canon), format!("{:?} (argument values {:?}/{})", want, ks, denom(ev)), o.show()));
        }
        sc.class(&format!("{}:{}", ev.name(), canon));
        if ks.len() >= 2 && ks.iter().any(|k| *k != ks[0]) {
            let mut key = ks.clone();
            key.insert(0, ev as i64);
            let h = crate::util::fnv(format!("{:?}{}", key, canon).as_bytes());
            sc.nontrivial(h, || sample(case, &o.show()));
        }
        Ok(())
    }
}
