//! C15 — "Where their domains overlap the evaluators give the same answer: on integer expressions
//! (+ - * % ^ unary minus, abs, sgn, min, max, mod, n!, exact /) eval_number returns Integer(v) whenever
//! eval_i64 returns Ok(v); on any expression of the shared f64 grammar whose intermediate values are all
//! finite, below 2^53 in magnitude and never a negative zero, eval_number's numeric value equals
//! eval_f64's result exactly (expressions raising an Integer to a negative Integer power excepted). On
//! each operator or function applied to real operands inside its real domain eval_complex agrees with
//! eval_f64 within 1e-9, and on positive well-conditioned expressions over + * / sqrt exp ln pow
//! eval_decimal agrees with eval_f64 within 1e-9 relative."
//!
//! Differential; reference evaluation is used only to decide whether the stated restriction holds.

use super::c06;
use super::common::*;
use crate::api::{self, Ev, Outcome, Val};
use crate::choice::Choices;
use crate::gen::{self, Profile};
use crate::grammar::{self, BinOp, E};
use crate::refeval::f64r::{self, RF};
use crate::refeval::i64r::{self, RI};
use crate::run::{Case, Failure, Prop, ShardCtx, Sub, SubKind, Tier};
use crate::vocab;
use std::sync::OnceLock;

pub struct C15Prop;
pub static C15: C15Prop = C15Prop;

fn int_profile() -> Profile {
    let mut p = Profile::full(Ev::I64);
    p.ops = vec![BinOp::Add, BinOp::Sub, BinOp::Mul, BinOp::Mod, BinOp::Pow, BinOp::Div];
    p.funcs.retain(|f| ["abs", "sgn", "min", "max", "mod", "pow"].contains(&f.canon));
    p.lits = c06::pool().into_iter().filter(|v| *v >= 0).map(|v| v.to_string()).collect();
    p.lits.extend(["2", "3", "4", "5", "6", "8", "9", "12", "24", "36"].iter().map(|s| s.to_string()));
    p.sups = ["2", "3", "0", "1", "10"].iter().map(|s| s.to_string()).collect();
    p.max_depth = 5;
    p
}

fn grid_forms() -> &'static Vec<String> {
    static CELL: std::sync::OnceLock<Vec<String>> = std::sync::OnceLock::new();
    CELL.get_or_init(|| {
        let num: Vec<&str> = crate::vocab::funcs(Ev::Num).iter().map(|f| f.name).collect();
        let mut v: Vec<String> = Vec::new();
        for f in crate::vocab::funcs(Ev::F64) {
            if !num.contains(&f.name) || f.canon == "ilog" || f.canon == "w" {
                continue;
            }
            match f.arity {
                crate::vocab::Arity::One => v.push(format!("{}(K)", f.name)),
                crate::vocab::Arity::Two => {
                    for o in ["2", "3", "0.5"] {
                        v.push(format!("{}({},K)", f.name, o));
                        v.push(format!("{}(K,{})", f.name, o));
                    }
                }
                _ => {}
            }
        }
        v.extend(["K^0.5", "K^2", "K^3", "2^K", "K/3", "K*0.1", "K%7", "1/K", "K°", "K!", "-K^0.5", "ilog(K*K,K)", "ilog(K^3,K)", "ilog(K,2)", "ilog(K,10)", "ilog(K*K+1,K)", "ilog(K*K-1,K)", "sqrt(K*K)", "root(3,K^3)", "log(K*K,K)"].iter().map(|s| s.to_string()));
        v
    })
}

fn shared_profile() -> Profile {
    let mut p = Profile::full(Ev::F64);
    p.lits = ["0", "1", "2", "3", "5", "7", "10", "12", "100", "0.5", "1.5", "2.5", ".25", "3.", "0.1", "4", "6", "20", "1000000", "8"].iter().map(|s| s.to_string()).collect();
    // literals as people write constants, not as Display prints doubles: 15..30 fractional digits with few significant
    // ones, long integer parts with a fraction, more digits than a double holds (each evaluator has its own literal reader)
    for frac in 14..=30usize {
        for d in ["242631023867", "66743", "16021766340", "299792458", "137035999084", "91093837015", "2426310238671234", "7", "125", "31415926535897932"] {
            if d.len() <= frac {
                p.lits.push(format!("0.{}{}", "0".repeat(frac - d.len()), d));
            }
        }
    }
    for l in ["6.02214076", "299792458.0", "0.000000000066743", "1.602176634", "12345678.87654321", "9007199254740993.5", "123456789012345678.9", "0.1000000000000000055511151231257827", "1.7976931348623157", "4.9406564584124654", "2.2250738585072014"] {
        p.lits.push(l.to_string());
    }
    p.max_depth = 5;
    p
}

/// every Bin(Div) of the tree divides exactly (by the i128 reference)
fn divisions_exact(e: &E, ph: i64) -> bool {
    let mut ok = true;
    grammar::walk(e, &mut |n| {
        if let E::Bin(BinOp::Div, a, b) = n {
            match (i64r::eval(a, ph), i64r::eval(b, ph)) {
                (RI::Val(x), RI::Val(y)) if y != 0 && (x as i128) % (y as i128) == 0 => {}
                _ => ok = false,
            }
        }
    });
    ok
}

/// C15(ii) restriction, decided on eval_f64's own values of every subexpression.
fn f64_restriction(sc: &mut ShardCtx, e: &E, ph: f64) -> Result<(), &'static str> {
    let mut nodes: Vec<&E> = Vec::new();
    grammar::walk(e, &mut |n| nodes.push(n));
    for n in nodes {
        if matches!(n, E::Lit(_) | E::Group(grammar::Br::Round, _) | E::Pos(_)) && !matches!(n, E::Lit(_)) {
            continue;
        }
        let s = grammar::render(n);
        sc.evals(1);
        match api::eval(Ev::F64, &s, &Val::F(ph)) {
            Outcome::Ok(Val::F(v)) => {
                if !v.is_finite() {
                    return Err("non-finite intermediate");
                }
                if v.abs() >= 9007199254740992.0 {
                    return Err("intermediate >= 2^53");
                }
                if v == 0.0 && v.is_sign_negative() {
                    return Err("negative zero intermediate");
                }
            }
            Outcome::Err => return Err("subexpression is Err in eval_f64"),
            _ => return Err("abnormal"),
        }
        // Integer raised to a negative Integer power
        let (base, exp) = match n {
            E::Bin(BinOp::Pow, a, b) => (Some(&**a), Some(&**b)),
            E::Call(name, args) if vocab::all_canon(name) == "pow" && args.len() == 2 => (Some(&args[0]), Some(&args[1])),
            _ => (None, None),
        };
        if let (Some(a), Some(b)) = (base, exp) {
            // decided, like the rest of the restriction, on eval_f64's own values: an integral base value is an Integer in
            // eval_number however it was computed (the reference's value of an approximate base can differ in the last bits
            // and miss that it is integral)
            let own = |n: &E| match api::eval(Ev::F64, &grammar::render(n), &Val::F(ph)) {
                Outcome::Ok(Val::F(v)) => Some(v),
                _ => None,
            };
            sc.evals(2);
            let (va, vb) = (own(a).or(f64r::eval_lenient(a, ph).value()), own(b).or(f64r::eval_lenient(b, ph).value()));
            if let (Some(x), Some(y)) = (va, vb) {
                if y < 0.0 && y.fract() == 0.0 && x.fract() == 0.0 {
                    return Err("Integer to a negative Integer power");
                }
            } else {
                return Err("exponent not decidable");
            }
        }
    }
    Ok(())
}

/// real grid points inside each function's real domain (with margins)
fn real_cases() -> &'static Vec<String> {
    static CELL: OnceLock<Vec<String>> = OnceLock::new();
    CELL.get_or_init(|| {
        let any: Vec<f64> = vec![-7.5, -3.0, -2.25, -1.0, -0.75, -0.1, 0.1, 0.25, 0.5, 0.9, 1.0, 1.5, 2.0, 3.0, 4.75, 10.0, 25.0];
        let pos: Vec<f64> = any.iter().cloned().filter(|x| *x > 0.0).collect();
        let unit: Vec<f64> = vec![-0.95, -0.5, -0.1, 0.1, 0.3, 0.5, 0.75, 0.95];
        let ge1: Vec<f64> = vec![1.05, 1.5, 2.0, 3.0, 10.0, 25.0];
        let lit = |x: f64| f64_expr(x).unwrap();
        let mut v = Vec::new();
        for (f, dom) in [
            ("abs", &any), ("exp", &any), ("exp2", &any), ("sin", &any), ("cos", &any), ("tan", &any), ("sinh", &any), ("cosh", &any), ("tanh", &any), ("atan", &any), ("asinh", &any), ("arsinh", &any),
            ("sqrt", &pos), ("ln", &pos), ("lb", &pos), ("asin", &unit), ("acos", &unit), ("atanh", &unit), ("artanh", &unit), ("acosh", &ge1), ("arcosh", &ge1),
        ] {
            for x in dom.iter() {
                v.push(format!("{}({})", f, lit(*x)));
            }
        }
        for a in &any {
            for b in &any {
                for op in ["+", "-", "*", "/"] {
                    v.push(format!("{}{}{}", lit(*a), op, lit(*b)));
                }
            }
            v.push(format!("-{}", lit(*a)));
            v.push(format!("{}°", lit(*a)));
            v.push(format!("{}rad", lit(*a)));
            v.push(format!("{}²", lit(*a)));
            for n in ["2", "3", "(-2)", "0", "5"] {
                v.push(format!("{}^{}", lit(*a), n));
                v.push(format!("pow({},{})", lit(*a), n));
            }
        }
        // truncated spellings of e, pi, sqrt 2 … as bases and arguments, with small and large exponents
        for k in near_constants() {
            for f in ["exp", "ln", "sqrt", "sin", "cos", "atan", "sinh", "lb", "exp2", "abs"] {
                v.push(format!("{}({})", f, k));
            }
            for n in ["2", "10", "100", "40", "(-90)", "0.5", "3.5", "12.25"] {
                v.push(format!("{}^{}", k, n));
                v.push(format!("pow({},{})", k, n));
            }
        }
        for a in &pos {
            for b in &any {
                v.push(format!("{}^{}", lit(*a), lit(*b)));
                v.push(format!("pow({},{})", lit(*a), lit(*b)));
            }
            for b in &pos {
                if (*b - 1.0).abs() > 1e-9 {
                    v.push(format!("log({},{})", lit(*a), lit(*b)));
                }
                v.push(format!("root({},{})", lit(*b), lit(*a)));
            }
        }
        v
    })
}

/// positive, well-conditioned decimal-vs-f64 trees with a running relative error bound
fn gen_wc(c: &mut dyn Choices, depth: u32) -> E {
    let lits = ["0.5", "1.5", "2", "3", "2.5", "7", "10", "0.25", "12.5", "0.1", "4", "20", "1.25", "50"];
    if depth == 0 || c.below(4) == 0 {
        return E::Lit(lits[c.below(lits.len() as u32) as usize].to_string());
    }
    match c.below(8) {
        0 | 1 => gen::mk_bin(BinOp::Add, gen_wc(c, depth - 1), gen_wc(c, depth - 1)),
        2 | 3 => gen::mk_bin(BinOp::Mul, gen_wc(c, depth - 1), gen_wc(c, depth - 1)),
        4 => gen::mk_bin(BinOp::Div, gen_wc(c, depth - 1), gen_wc(c, depth - 1)),
        5 => E::Call("sqrt", vec![gen_wc(c, depth - 1)]),
        6 => {
            if c.below(2) == 0 {
                E::Call("exp", vec![gen_wc(c, depth - 1)])
            } else {
                E::Call("ln", vec![gen_wc(c, depth - 1)])
            }
        }
        _ => {
            if c.below(2) == 0 {
                E::Call("pow", vec![gen_wc(c, depth - 1), gen_wc(c, depth - 1)])
            } else {
                gen::mk_bin(BinOp::Pow, gen_wc(c, depth - 1), gen_wc(c, depth - 1))
            }
        }
    }
}

/// (value, relative error bound) of a well-conditioned tree; None if the conditioning is not bounded
fn cond(e: &E) -> Option<(f64, f64)> {
    let u = 1e-13;
    match e {
        E::Lit(s) => s.parse::<f64>().ok().map(|v| (v, 1e-16)),
        E::Group(_, a) => cond(a),
        E::Bin(op, a, b) => {
            let ((x, ex), (y, ey)) = (cond(a)?, cond(b)?);
            match op {
                BinOp::Add => Some((x + y, ex.max(ey) + u)),
                BinOp::Mul => Some((x * y, ex + ey + u)),
                BinOp::Div => Some((x / y, ex + ey + u)),
                BinOp::Pow => pow_cond(x, ex, y, ey, u),
                _ => None,
            }
        }
        E::Call(n, args) => match *n {
            "sqrt" => cond(&args[0]).map(|(x, ex)| (x.sqrt(), ex / 2.0 + u)),
            "exp" => cond(&args[0]).map(|(x, ex)| (x.exp(), x.abs() * ex + u)),
            "ln" => {
                let (x, ex) = cond(&args[0])?;
                let l = x.ln();
                if l.abs() < 0.05 {
                    return None;
                }
                Some((l, ex / l.abs() + u))
            }
            "pow" => {
                let ((x, ex), (y, ey)) = (cond(&args[0])?, cond(&args[1])?);
                pow_cond(x, ex, y, ey, u)
            }
            _ => None,
        },
        _ => None,
    }
}

fn pow_cond(x: f64, ex: f64, y: f64, ey: f64, u: f64) -> Option<(f64, f64)> {
    // x^y = exp(y ln x): relative error |y| ex + |y ln x| ey
    let v = x.powf(y);
    Some((v, y.abs() * ex + (y * x.ln()).abs() * ey + (y * x.ln()).abs().max(1.0) * u))
}

impl Prop for C15Prop {
    fn id(&self) -> &'static str {
        "C15"
    }
    fn rule(&self) -> String {
        "Pairs of evaluators on one rendered text. (i) i64-vs-number: random integer trees (depth <=5) over + - * % ^ unary minus abs sgn min max mod pow n! and / (kept only when every division is exact by the i128 reference) with boundary operands and @; whenever eval_i64 = Ok(v), eval_number must be Integer(v). (ii) f64-vs-number: random trees of the whole shared grammar; restriction decided on eval_f64's own value of every subexpression (finite, < 2^53, not -0.0, no Integer^negative Integer); then eval_number's numeric value must equal eval_f64's result exactly. (iii) complex-vs-f64: exhaustive grid: every shared function and alias x real points inside its real domain, every operator x real pairs, deg/rad/superscript; re within 1e-9 relative of eval_f64 and |im| <= 1e-9*|result|. (iv) decimal-vs-f64: random positive trees over + * / sqrt exp ln pow ^ (operands 0.1..50, depth <=4) whose propagated relative-error bound stays < 1e-10 and value in [1e-6, 1e20]; agreement within 1e-9 relative. non-trivial = >=2 operator nodes ((iii): 1), both evaluators Ok, restriction holds; distinct by (sub-check, input, placeholder).".into()
    }
    fn subs(&self, tier: Tier) -> Vec<Sub> {
        vec![
            Sub { name: "i64-number", kind: SubKind::Random { cases: tier.pick(400_000, 20_000_000), len: 160 } },
            Sub { name: "f64-number", kind: SubKind::Random { cases: tier.pick(300_000, 15_000_000), len: 160 } },
            Sub { name: "complex-f64", kind: SubKind::Enum { count: real_cases().len() as u64 } },
            Sub { name: "decimal-f64", kind: SubKind::Random { cases: tier.pick(100_000, 3_000_000), len: 80 } },
            Sub { name: "f64-number-grid", kind: SubKind::Enum { count: grid_forms().len() as u64 * 3000 } },
            Sub { name: "after-failures", kind: SubKind::Enum { count: ((failing_templates(Ev::Num).len() + failing_templates(Ev::I64).len()) * probe_expressions(Ev::I64).len()) as u64 } },
        ]
    }
    fn gen_enum(&self, sub: &str, idx: u64, _tier: Tier) -> Option<Case> {
        if sub == "f64-number-grid" {
            // every shared function on every integer 1..3000 (also as second argument, with 2 / 3 / 0.5 as the other one):
            // sparse last-bit disagreements between two implementations of the same function (sqrt vs pow(x,0.5)) sit at
            // unremarkable arguments, about one in a thousand
            let forms = grid_forms();
            let k = 1 + idx / forms.len() as u64;
            let f = &forms[(idx % forms.len() as u64) as usize];
            return Some(Case::new(Ev::F64, f.replace('K', &k.to_string()), Val::F(3.0)));
        }
        if sub == "after-failures" {
            // agreement must survive a long run of failing calls in either evaluator on the same thread
            let ps = probe_expressions(Ev::I64);
            let (tn, ti) = (failing_templates(Ev::Num), failing_templates(Ev::I64));
            let k = idx as usize / ps.len();
            let (which, t) = if k < tn.len() { ("number", tn[k].clone()) } else { ("i64", ti.get(k - tn.len())?.clone()) };
            let mut case = Case::new(Ev::I64, ps[idx as usize % ps.len()].to_string(), Val::I(5));
            case.aux = vec![which.to_string(), t];
            return Some(case);
        }
        Some(Case::new(Ev::Cpx, real_cases().get(idx as usize)?.clone(), Val::C(0.0, 0.0)))
    }
    fn gen(&self, sub: &str, c: &mut dyn Choices) -> Option<Case> {
        let (ev, s, ph) = match sub {
            "i64-number" => {
                let p = int_profile();
                let ph = pick_ph(Ev::I64, c);
                (Ev::I64, grammar::render(&gen::gen_expr(&p, c, p.max_depth)), ph)
            }
            "f64-number" => {
                let mut p = shared_profile();
                if c.below(4) != 0 {
                    // three cases in four use the short literals only (long argument lists must fit into 256 characters);
                    // the long-fraction literals appear in the remaining quarter
                    p.lits.truncate(20);
                }
                let ph = match c.below(6) {
                    0 => Val::F(3.0),
                    1 => Val::F(0.5),
                    2 => Val::F(-2.5),
                    3 => Val::F(1e6),
                    4 => Val::F(7.0),
                    _ => Val::F(0.0),
                };
                (Ev::F64, grammar::render(&gen::gen_expr(&p, c, p.max_depth)), ph)
            }
            _ => {
                let d = 1 + c.below(4);
                (Ev::Dec, grammar::render(&gen_wc(c, d)), Val::D(dec("0")))
            }
        };
        if char_len(&s) > 256 {
            return None;
        }
        // one rendering for all evaluators — now and then with Unicode whitespace in it
        let s = if c.below(8) == 7 { gen::sprinkle_ws(&s, c, 3) } else { s };
        Some(Case::new(ev, s, ph))
    }
    fn check(&self, sub: &str, case: &Case, sc: &mut ShardCtx) -> Result<(), Failure> {
        if sub == "f64-number-grid" {
            return self.check("f64-number", case, sc);
        }
        if sub == "after-failures" {
            if let (Some(which), Some(t)) = (case.aux.first(), case.aux.get(1)) {
                if which == "number" {
                    exhaust(sc, Ev::Num, t, &Val::NI(5));
                } else {
                    exhaust(sc, Ev::I64, t, &Val::I(5));
                }
            }
            return self.check("i64-number", case, sc);
        }
        match sub {
            "i64-number" => {
                let e = match accept(Ev::I64, &case.input) {
                    Some(e) => e,
                    None => {
                        sc.exclude("not accepted");
                        return Ok(());
                    }
                };
                let p = match case.ph {
                    Val::I(p) => p,
                    _ => return Ok(()),
                };
                // restriction: the C15(i) sub-language with exact divisions, exponents in range, n >= 0
                if !divisions_exact(&e, p) {
                    sc.exclude("(i) inexact division");
                    return Ok(());
                }
                let mut unspec = false;
                grammar::walk(&e, &mut |n| {
                    if let RI::Unspec(_) = i64r::eval(n, p) {
                        unspec = true;
                    }
                });
                if unspec {
                    sc.exclude("(i) outside the stated sub-language (exponent range, negative factorial)");
                    return Ok(());
                }
                let a = match eval_normal(sc, Ev::I64, &case.input, &case.ph) {
                    Some(o) => o,
                    None => return Ok(()),
                };
                let v = match a {
                    Outcome::Ok(Val::I(v)) => v,
                    _ => {
                        sc.class("(i) eval_i64 is Err (no claim)");
                        return Ok(());
                    }
                };
                let b = match eval_normal(sc, Ev::Num, &case.input, &Val::NI(p)) {
                    Some(o) => o,
                    None => return Ok(()),
                };
                if !matches!(&b, Outcome::Ok(Val::NI(g)) if *g == v) {
                    let hd = localise(&e, &mut |n| {
                        let s = grammar::render(n);
                        match (api::eval(Ev::I64, &s, &Val::I(p)), api::eval(Ev::Num, &s, &Val::NI(p))) {
                            (Outcome::Ok(Val::I(x)), Outcome::Ok(Val::NI(y))) => x != y,
                            (Outcome::Ok(Val::I(_)), o) => !o.is_abnormal(),
                            _ => false,
                        }
                    });
                    return Err(Failure::new(format!("i64-number/{}", hd), format!("eval_number = Integer({}) (eval_i64 = Ok({}))", v, v), b.show()));
                }
                sc.class("(i) agree");
                if grammar::op_count(&e) >= 2 {
                    sc.nontrivial(case.hash(), || sample(case, &format!("both {}", v)));
                }
                Ok(())
            }
            "f64-number" => {
                let e = match accept(Ev::F64, &case.input) {
                    Some(e) => e,
                    None => {
                        sc.exclude("not accepted");
                        return Ok(());
                    }
                };
                let p = match case.ph {
                    Val::F(p) => p,
                    _ => return Ok(()),
                };
                if let Err(why) = f64_restriction(sc, &e, p) {
                    sc.exclude(&format!("(ii) restriction fails: {}", why));
                    return Ok(());
                }
                let a = match eval_normal(sc, Ev::F64, &case.input, &case.ph) {
                    Some(Outcome::Ok(Val::F(v))) => v,
                    _ => return Ok(()),
                };
                // the same placeholder value for eval_number: Integer when integral (both readings are tried)
                let mut phs = vec![Val::NF(p)];
                if p.fract() == 0.0 && p.abs() < 9e15 {
                    phs.push(Val::NI(p as i64));
                }
                for ph in phs {
                    let b = match eval_normal(sc, Ev::Num, &case.input, &ph) {
                        Some(o) => o,
                        None => continue,
                    };
                    let ok = match &b {
                        Outcome::Ok(Val::NI(i)) => *i as f64 == a,
                        Outcome::Ok(Val::NF(f)) => *f == a,
                        _ => false,
                    };
                    if !ok {
                        let hd = localise(&e, &mut |n| {
                            let s = grammar::render(n);
                            match (api::eval(Ev::F64, &s, &Val::F(p)), api::eval(Ev::Num, &s, &ph)) {
                                (Outcome::Ok(Val::F(x)), Outcome::Ok(Val::NI(y))) => x != y as f64,
                                (Outcome::Ok(Val::F(x)), Outcome::Ok(Val::NF(y))) => x != y,
                                (Outcome::Ok(_), o) => !o.is_abnormal(),
                                _ => false,
                            }
                        });
                        return Err(Failure::new(format!("f64-number/{}", hd), format!("numeric value {:?} (eval_f64)", a), format!("{} (eval_number, placeholder {})", b.show(), ph.show())));
                    }
                }
                sc.class("(ii) agree");
                if grammar::op_count(&e) >= 2 {
                    sc.nontrivial(case.hash(), || sample(case, &format!("both {:?}", a)));
                }
                Ok(())
            }
            "complex-f64" => {
                let a = match eval_normal(sc, Ev::F64, &case.input, &Val::F(0.0)) {
                    Some(Outcome::Ok(Val::F(v))) if v.is_finite() => v,
                    _ => {
                        sc.exclude("(iii) eval_f64 not finite");
                        return Ok(());
                    }
                };
                let b = match eval_normal(sc, Ev::Cpx, &case.input, &Val::C(0.0, 0.0)) {
                    Some(o) => o,
                    None => return Ok(()),
                };
                let ok = match &b {
                    Outcome::Ok(Val::C(re, im)) => {
                        let m = re.hypot(*im);
                        (re - a).abs() <= 1e-9 * a.abs().max(f64::MIN_POSITIVE) && im.abs() <= 1e-9 * m.max(f64::MIN_POSITIVE) || (a == 0.0 && m <= 1e-300)
                    }
                    _ => false,
                };
                if !ok {
                    let hd = accept(Ev::F64, &case.input).map(|e| head(&e)).unwrap_or_default();
                    return Err(Failure::new(format!("complex-f64/{}", hd), format!("{:?}+0i within 1e-9 (eval_f64)", a), b.show()));
                }
                sc.class("(iii) agree");
                sc.nontrivial(case.hash(), || sample(case, &format!("f64 {:?} / complex {}", a, b.show())));
                Ok(())
            }
            _ => {
                let e = match accept(Ev::Dec, &case.input) {
                    Some(e) => e,
                    None => return Ok(()),
                };
                let (v, err) = match cond(&e) {
                    Some(x) => x,
                    None => {
                        sc.exclude("(iv) conditioning not bounded");
                        return Ok(());
                    }
                };
                if !(err < 1e-10 && v.is_finite() && v > 1e-6 && v < 1e20) {
                    sc.exclude("(iv) not well-conditioned / out of the comfortable range");
                    return Ok(());
                }
                // every subexpression must stay in a comfortable range too
                let mut ok_range = true;
                grammar::walk(&e, &mut |n| {
                    if let Some((x, _)) = cond(n) {
                        if !(x > 1e-6 && x < 1e20) {
                            ok_range = false;
                        }
                    }
                });
                if !ok_range {
                    sc.exclude("(iv) intermediate out of the comfortable range");
                    return Ok(());
                }
                let a = match eval_normal(sc, Ev::F64, &case.input, &Val::F(0.0)) {
                    Some(Outcome::Ok(Val::F(v))) => v,
                    _ => return Ok(()),
                };
                let b = match eval_normal(sc, Ev::Dec, &case.input, &case.ph) {
                    Some(o) => o,
                    None => return Ok(()),
                };
                let ok = match &b {
                    Outcome::Ok(d) => (d.as_f64() - a).abs() <= 1e-9 * a.abs(),
                    _ => false,
                };
                if !ok {
                    let hd = localise(&e, &mut |n| {
                        let s = grammar::render(n);
                        match (api::eval(Ev::F64, &s, &Val::F(0.0)), api::eval(Ev::Dec, &s, &case.ph)) {
                            (Outcome::Ok(Val::F(x)), Outcome::Ok(d)) => (d.as_f64() - x).abs() > 1e-9 * x.abs(),
                            (Outcome::Ok(_), Outcome::Err) => true,
                            _ => false,
                        }
                    });
                    return Err(Failure::new(format!("decimal-f64/{}", hd), format!("{:?} within 1e-9 relative (eval_f64)", a), b.show()));
                }
                sc.class("(iv) agree");
                if grammar::op_count(&e) >= 2 {
                    sc.nontrivial(case.hash(), || sample(case, &format!("f64 {:?} / decimal {}", a, b.show())));
                }
                Ok(())
            }
        }
    }
}

#[allow(dead_code)]
fn unused(_: RF) {}
