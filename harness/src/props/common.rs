//! Helpers shared by the property modules: placeholder pools, signatures, literal pools.

use crate::api::{self, Ev, Outcome, Val};
use crate::choice::Choices;
use crate::grammar::{self, Verdict, E};
use crate::run::{Case, Failure, ShardCtx};
use crate::vocab;
use rust_decimal::Decimal;
use serde_json::{json, Value};
use std::str::FromStr;

pub fn f64_pool() -> Vec<f64> {
    vec![
        0.0,
        -0.0,
        1.0,
        -1.0,
        0.5,
        7.5,
        9007199254740992.0,
        -9007199254740992.0,
        f64::MAX,
        f64::MIN,
        5e-324,
        -5e-324,
        f64::INFINITY,
        f64::NEG_INFINITY,
        f64::NAN,
        f64::from_bits(0xfff8_0000_0000_1234),
        f64::from_bits(0xfff8_0000_0000_0000),
        2.0,
        3.0,
        -2.5,
        1e300,
        170.0,
        171.0,
        1e18,
        // neighbours of small integers and of 2^63
        0.9999999999999999,
        1.0000000000000002,
        -0.9999999999999999,
        9223372036854775808.0,
        9223372036854774784.0,
        2251799813685248.5,
    ]
}

pub fn i64_pool() -> Vec<i64> {
    vec![
        0,
        1,
        -1,
        7,
        2,
        -2,
        1 << 31,
        -(1 << 31),
        1 << 32,
        -(1 << 32),
        3037000499,
        3037000500,
        1 << 62,
        -(1 << 62),
        i64::MAX,
        i64::MIN,
        i64::MAX - 1,
        i64::MIN + 1,
        20,
        21,
        63,
        64,
    ]
}

pub fn dec(s: &str) -> Decimal {
    Decimal::from_str(s).unwrap()
}

pub fn dec_pool() -> Vec<Decimal> {
    let mut neg0 = Decimal::ZERO;
    neg0.set_sign_negative(true);
    vec![
        Decimal::ZERO,
        neg0,
        Decimal::ONE,
        dec("7.50"),
        dec("7.5"),
        dec("0.0000000000000000000000000001"),
        Decimal::MAX,
        Decimal::MIN,
        dec("-2.5"),
        dec("3"),
        dec("3.00"),
        dec("1.0000000000000000000000000000"),
        dec("27"),
        dec("28"),
        dec("100"),
        dec("0.5"),
        dec("-1"),
        dec("79228162514264337593543950334"),
        // one and two units in the last place around small integers at full scale
        dec("0.9999999999999999999999999999"),
        dec("1.0000000000000000000000000001"),
        dec("1.0000000000000000000000000002"),
        dec("1.9999999999999999999999999998"),
        dec("6.9999999999999999999999999999"),
        dec("-0.9999999999999999999999999999"),
        dec("-3.0000000000000000000000000001"),
        dec("2"),
        dec("2.00"),
    ]
}

pub fn ph_pool(ev: Ev) -> Vec<Val> {
    match ev {
        Ev::F64 => f64_pool().into_iter().map(Val::F).collect(),
        Ev::I64 => i64_pool().into_iter().map(Val::I).collect(),
        Ev::Dec => dec_pool().into_iter().map(Val::D).collect(),
        Ev::Cpx => {
            let p = [0.0, -0.0, 1.0, -1.0, 0.5, 2.0, 7.5, f64::INFINITY, f64::NEG_INFINITY, f64::NAN, f64::MAX, 5e-324];
            let mut v = Vec::new();
            for (i, a) in p.iter().enumerate() {
                v.push(Val::C(*a, p[(i * 5 + 3) % p.len()]));
                v.push(Val::C(*a, 0.0));
            }
            v.push(Val::C(1.5, 2.0));
            v.push(Val::C(-0.75, 0.25));
            v
        }
        Ev::Num => {
            let mut v: Vec<Val> = i64_pool().into_iter().map(Val::NI).collect();
            v.extend(f64_pool().into_iter().map(Val::NF));
            v
        }
    }
}

pub fn pick_ph(ev: Ev, c: &mut dyn Choices) -> Val {
    let p = ph_pool(ev);
    p[c.below(p.len() as u32) as usize].clone()
}

/// Stable signature of a panic: evaluator, source file (no line), message with digits removed.
pub fn panic_sig(ev: Ev, msg: &str, loc: &str) -> String {
    let file = loc.rsplit_once(':').map(|x| x.0).unwrap_or(loc);
    let mut m: String = msg.chars().filter(|c| !c.is_ascii_digit()).take(48).collect();
    m = m.replace(' ', "_").replace('/', "|");
    format!("{}/panic/{}/{}", ev.name(), file.replace('/', "|"), m)
}

pub fn outcome_failure_panic(ev: Ev, o: &Outcome) -> Option<Failure> {
    if let Outcome::Panic(m, l) = o {
        Some(Failure::new(panic_sig(ev, m, l), "Ok(_) or Err(_)", o.show()))
    } else {
        None
    }
}

/// Evaluate, counting the call; abnormal outcomes (panic / budget) are returned as they are.
pub fn eval(sc: &mut ShardCtx, ev: Ev, s: &str, ph: &Val) -> Outcome {
    sc.evals(1);
    api::eval(ev, s, ph)
}

/// Evaluate for a property that does not own panics / hangs: abnormal outcomes are counted and `None` is returned.
pub fn eval_normal(sc: &mut ShardCtx, ev: Ev, s: &str, ph: &Val) -> Option<Outcome> {
    let o = eval(sc, ev, s, ph);
    match o {
        Outcome::Panic(_, _) => {
            sc.exclude("panic(owned by C01)");
            None
        }
        Outcome::Budget(_) => {
            sc.exclude("budget(owned by C02)");
            None
        }
        o => Some(o),
    }
}

pub fn sample(case: &Case, outcome: &str) -> Value {
    json!({"evaluator": case.ev.name(), "input": case.input, "placeholder": case.ph.show(), "outcome": outcome})
}

/// Reference parse that must accept (for properties over well-formed expressions).
pub fn accept(ev: Ev, s: &str) -> Option<E> {
    match grammar::recognise(ev, s) {
        Verdict::Accept(e) => Some(e),
        _ => None,
    }
}

/// Head symbol of a node, for signatures.
pub fn head(e: &E) -> String {
    match e {
        E::Lit(_) => "lit".into(),
        E::Const(c) => format!("const:{}", c),
        E::Ans => "@".into(),
        E::Neg(_) => "neg".into(),
        E::Pos(_) => "pos".into(),
        E::Bin(op, _, _) => format!("op:{}", op.text()),
        E::Sup(_, _) => "sup".into(),
        E::Fact(_) => "fact".into(),
        E::Deg(_) => "deg".into(),
        E::Rad(_) => "rad".into(),
        E::Group(br, _) => format!("group:{}", br.open()),
        E::Call(n, _) => format!("fn:{}", crate::vocab::all_canon(n)),
        E::Juxt(_, _) => "juxt".into(),
    }
}

pub fn char_len(s: &str) -> usize {
    s.chars().count()
}

/// Boundary literal texts per evaluator (non-negative; negatives are written `(-x)`).
pub fn boundary_lits(ev: Ev) -> Vec<String> {
    let big400: String = "9".repeat(400);
    let v: Vec<&str> = match ev {
        Ev::I64 => vec![
            "0", "1", "2", "3", "7", "10", "20", "21", "62", "63", "64", "65", "2147483647", "2147483648", "4294967296", "3037000499", "3037000500",
            "9007199254740993", "4611686018427387904", "9223372036854775806", "9223372036854775807", "007",
        ],
        Ev::Dec => vec![
            "0", "1", "2", "3", "0.5", ".5", "1.", "0.1", "0.2", "1.10", "7.50", "27", "28", "100", "0.0000000000000000000000000001", "79228162514264337593543950335",
            "7922816251426433759354395033.5", "39614081257132168796771975168", "1000000000000000", "0.3333333333333333333333333333", "170", "007",
        ],
        _ => vec![
            "0", "1", "2", "3", "0.5", ".5", "1.", "0.1", "2.5", "7.5", "10", "170", "171", "9007199254740992", "9007199254740993", "1000000000000000000", "0.49999999999999994",
            "9223372036854775807", "9223372036854775808", "18446744073709551616", "0.000000000000000000000000000000000000000000000001", "007", "1.2", "1.0000001", "150.5",
        ],
    };
    let mut out: Vec<String> = v.into_iter().map(|s| s.to_string()).collect();
    if matches!(ev, Ev::F64 | Ev::Num) {
        out.extend(["9007199254740992.0", "9223372036854775808.0", "3.0", "0.0"].iter().map(|s| s.to_string()));
        // integer parts that are exact rounding ties, with a fraction that has to break the tie
        out.extend(["10000000000000001.5", "9007199254740993.5", "18014398509481986.25", "100000000000000008192.0001", "9007199254740993.0000000000000000000000001"].iter().map(|s| s.to_string()));
    }
    if matches!(ev, Ev::F64 | Ev::Cpx | Ev::Num) {
        out.push(format!("{}.0", big400));
        out.push(format!("1{}.5", "0".repeat(308)));
    }
    if ev == Ev::Cpx {
        out.extend(["i", "2i", "0.5i", ".5i", "3.i"].iter().map(|s| s.to_string()));
    }
    out
}

/// Truncated decimal spellings of mathematically special constants (e, pi, sqrt 2, 3^(1/3), e^(1/e), 1/e, ln 2 …):
/// values a "fast path" or a rounded threshold constant is likely to be written around.
pub fn near_constants() -> Vec<&'static str> {
    vec![
        "2.718281828", "2.7182818285", "2.718281828459045", "2.71828", "3.14159265", "3.141592653589793", "3.1416", "1.4142135623730951", "1.41421356", "1.4422495703074083", "1.44224957", "1.44222",
        "1.4446678610097661", "1.444667", "1.4447", "0.36787944117144233", "0.367879441", "0.6931471805599453", "0.69314718", "1.618033988749895", "0.5772156649015329", "2.302585092994046", "1.0000001", "0.9999999",
        "1.00000001", "1.000000001", "0.999999999",
    ]
}

/// Calls that fail, one per way of failing and per kind of node the failure has to travel through on its way out
/// (lexer error, parse error, evaluation error under every operator / function / bracket form). Used by the
/// `after-failures` sub-checks: a resource that is not released on the error path (a depth counter, a scratch
/// buffer) only shows after many such calls on one thread.
pub fn failing_templates(ev: Ev) -> Vec<String> {
    let cores: Vec<&str> = match ev {
        Ev::I64 => vec!["(1/0)", "(9223372036854775807+1)"],
        Ev::Dec => vec!["(1/0)", "w(-5)", "ln(0)"],
        Ev::Cpx => vec![],
        _ => vec!["w(-5)", "w(-0.5)", "w(1+w(-1))", "w(w(-5))"],
    };
    let mut wraps: Vec<&str> = vec!["C", "-C", "2*C", "C*2", "2(C)", "C+1", "1-C", "C/2", "2^C", "C^2", "abs(C)", "(C)", "C²", "-C*2", "3C-1", "min(1,C)", "max(C,1,2)", "pow(C,2)", "mod(7,C)", "--C"];
    if vocab::has_fact(ev) {
        wraps.extend(["C!", "-C!", "2*C!"]);
    }
    if vocab::has_floor_brackets(ev) {
        wraps.extend(["⌊C⌋", "⌈C⌉*2"]);
    }
    if vocab::has_deg(ev) {
        wraps.extend(["C°", "C rad"]);
    }
    let mut out: Vec<String> = Vec::new();
    for c in cores {
        for w in &wraps {
            out.push(w.replace('C', c));
        }
    }
    for bad in ["(", "1+", "2*(3", "1..2", "1.2.3", "#", "abs(", "min(1,", "2 3", ")", "1 +* 2", "@@", "sqrt()", "-", "2^", "((((((((1", "1,2"] {
        out.push(bad.to_string());
    }
    out
}

/// Expressions every evaluator must keep answering the same way whatever happened before.
pub fn probe_expressions(ev: Ev) -> Vec<&'static str> {
    match ev {
        Ev::I64 => vec!["2+3*4", "17%5", "84/2", "3^3", "20!", "min(3,1,2)", "-7+@"],
        Ev::Cpx => vec!["2+3*4", "(1+2i)*(3-i)", "sqrt(16)", "i*i", "@+1"],
        Ev::Dec => vec!["2+3*4", "17%5", "84/2", "0.1+0.2", "ceil(2.4)", "min(3,1,2)", "@*2"],
        _ => vec!["2+3*4", "17%5", "84/2", "3^39", "20!", "ceil(2.4)", "sqrt(2)*3", "min(3,1,2)", "@+1"],
    }
}

pub const EXHAUST_CALLS: usize = 1100;

/// Evaluates `template` EXHAUST_CALLS times on the current thread (results ignored).
pub fn exhaust(sc: &mut ShardCtx, ev: Ev, template: &str, ph: &Val) {
    for _ in 0..EXHAUST_CALLS {
        let _ = api::eval(ev, template, ph);
    }
    sc.evals(EXHAUST_CALLS as u64);
}

pub fn selftest() {
    // front-end sanity: render(parse(s)) == s for a few strings
    let cases = [
        (Ev::F64, "2^3!(4)^2"),
        (Ev::F64, "-2!(3)"),
        (Ev::F64, "3!(2)^2!"),
        (Ev::F64, "2(3)^2(4)"),
        (Ev::F64, "2*-3^2"),
        (Ev::F64, "2³!"),
        (Ev::I64, "1<<2+1"),
        (Ev::I64, "6&3<<1"),
        (Ev::F64, "6/2(3)"),
        (Ev::F64, "min(1,2)abs(3)"),
        (Ev::Cpx, "(1+2i)(3)"),
    ];
    for (ev, s) in cases {
        let v = grammar::recognise(ev, s);
        match &v {
            Verdict::Accept(e) => {
                println!("{:8} {:16} -> {}   [{}]", ev.name(), s, grammar::render_full(e), api::eval(ev, s, &Val::default_for(ev)).show());
                assert_eq!(grammar::render(e), s);
            }
            other => println!("{:8} {:16} -> {:?}", ev.name(), s, other),
        }
    }
}

/// Head of the smallest subtree for which `bad` holds (used to key signatures by root cause).
pub fn localise(e: &E, bad: &mut dyn FnMut(&E) -> bool) -> String {
    let mut best: Option<(usize, String)> = None;
    let mut nodes: Vec<&E> = Vec::new();
    grammar::walk(e, &mut |n| nodes.push(n));
    // localising re-evaluates every subexpression: quadratic in the size of the tree, so very large trees (the long
    // forms) are reported as a whole
    if nodes.len() > 600 {
        return "whole".into();
    }
    // smallest first
    nodes.sort_by_key(|n| grammar::size(n));
    for n in nodes {
        if matches!(n, E::Lit(_) | E::Const(_) | E::Ans) && best.is_some() {
            continue;
        }
        if bad(n) {
            best = Some((grammar::size(n), head(n)));
            break;
        }
    }
    best.map(|b| b.1).unwrap_or_else(|| "whole".into())
}

/// Literal spelling of a non-negative finite double that parses back to exactly that double (if short enough).
pub fn f64_literal(v: f64) -> Option<String> {
    if !v.is_finite() || v.is_sign_negative() {
        return None;
    }
    let s = format!("{}", v);
    if s.len() > 60 || s.contains('e') {
        return None;
    }
    Some(s)
}

/// Expression text evaluating to exactly `v` in eval_f64 / eval_number(Float) / eval_complex (real part).
pub fn f64_expr(v: f64) -> Option<String> {
    if v.is_nan() {
        return Some("(0/0)".into());
    }
    if v == f64::INFINITY {
        return Some("(1/0)".into());
    }
    if v == f64::NEG_INFINITY {
        return Some("(-1/0)".into());
    }
    if v.is_sign_negative() {
        f64_literal(-v).map(|s| format!("(-{})", s))
    } else {
        f64_literal(v)
    }
}

pub fn i64_expr(v: i64) -> String {
    if v == i64::MIN {
        "(-9223372036854775807-1)".into()
    } else if v < 0 {
        format!("(-{})", -v)
    } else {
        format!("{}", v)
    }
}
