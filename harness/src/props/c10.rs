//! C10 — "In each evaluator that offers it, every README function name and alias …, the constants pi/π
//! and e, and the postfix operators !, ° and rad compute that mathematical function of their evaluated
//! arguments wherever it is defined and representable: exactly for the exact ones (abs, sgn with
//! sgn(0)=0, floor, ceil, trunc, round with ties away from zero - to even in eval_decimal -, n! of
//! integers) and within 1e-9 relative for the others. In eval_i64 the real-valued functions (sqrt, root,
//! ln, lb, log, exp) return an integer within 1 of the real result when that is below 2^53 in magnitude.
//! Conventions: root(n,x)=x^(1/n), log(x,b)=log_b(x), atan2(y,x), x°=x*pi/180, x rad=x*180/pi,
//! x! = Gamma(x+1) for non-integer |x| <= 150, and w(x)*e^w(x) = x with w(x) >= -1 for every finite
//! x >= -1/e."
//!
//! Oracles: the host math library on the same (decimal-string) arguments, closed forms, and the
//! defining identity for Lambert W.

use super::common::*;
use crate::api::{Ev, Outcome, Val};
use crate::choice::Choices;
use crate::refeval::f64r;
use crate::run::{Case, Failure, Prop, ShardCtx, Sub, SubKind, Tier};
use crate::vocab::{self, Arity};
use std::sync::OnceLock;

pub struct C10Prop;
pub static C10: C10Prop = C10Prop;

/// host value of a canonical function; None where the real function is undefined / not claimed
pub fn host(canon: &str, a: &[f64]) -> Option<f64> {
    let x = a[0];
    let y = *a.get(1).unwrap_or(&f64::NAN);
    let v = match canon {
        "abs" => x.abs(),
        "sgn" => {
            if x > 0.0 {
                1.0
            } else if x < 0.0 {
                -1.0
            } else {
                0.0
            }
        }
        "floor" => x.floor(),
        "ceil" => x.ceil(),
        "trunc" => x.trunc(),
        "round" => x.round(),
        "sqrt" if x >= 0.0 => x.sqrt(),
        "exp" => x.exp(),
        "exp2" => x.exp2(),
        "ln" if x > 0.0 => x.ln(),
        "lb" if x > 0.0 => x.log2(),
        "sin" => x.sin(),
        "cos" => x.cos(),
        "tan" => x.tan(),
        "sinh" => x.sinh(),
        "cosh" => x.cosh(),
        "tanh" => x.tanh(),
        "asin" if x.abs() <= 1.0 => x.asin(),
        "acos" if x.abs() <= 1.0 => x.acos(),
        "atan" => x.atan(),
        "asinh" => x.asinh(),
        "acosh" if x >= 1.0 => x.acosh(),
        "atanh" if x.abs() < 1.0 => x.atanh(),
        "pow" if x > 0.0 || (y.fract() == 0.0 && x != 0.0) || (x == 0.0 && y > 0.0) => x.powf(y),
        // root(n, x) = x^(1/n)
        "root" if y > 0.0 && x != 0.0 => y.powf(1.0 / x),
        // log(x, b) = ln x / ln b
        "log" if x > 0.0 && y > 0.0 && y != 1.0 => x.ln() / y.ln(),
        "atan2" if x != 0.0 || y != 0.0 => x.atan2(y),
        "mod" if y != 0.0 => x % y,
        "deg" => x * std::f64::consts::PI / 180.0,
        "rad" => x * 180.0 / std::f64::consts::PI,
        "fact" => {
            if x.fract() == 0.0 {
                if x < 0.0 {
                    return None;
                }
                if x > 170.0 {
                    f64::INFINITY
                } else {
                    // exact product (exact in binary64 up to 22!, correctly rounded steps beyond)
                    let mut r = 1.0;
                    let mut i = 2.0;
                    while i <= x {
                        r *= i;
                        i += 1.0;
                    }
                    r
                }
            } else if x.abs() <= 150.0 && (x < 0.0 && (x - x.round()).abs() < 0.01) {
                return None; // within 0.01 of a pole
            } else if x.abs() <= 150.0 {
                f64r::gamma(x + 1.0)
            } else {
                return None;
            }
        }
        _ => return None,
    };
    if v.is_nan() {
        None
    } else {
        Some(v)
    }
}

fn exact_fn(canon: &str, args: &[f64]) -> bool {
    EXACT.contains(&canon) || (canon == "fact" && args[0].fract() == 0.0 && args[0] <= 22.0)
}

const EXACT: [&str; 7] = ["abs", "sgn", "floor", "ceil", "trunc", "round", "mod"];

/// one table entry: (evaluator, spelling kind, canonical function)
#[derive(Clone, Debug)]
pub struct Entry {
    pub ev: Ev,
    /// how the call is written: "name(" call, postfix "!", "°", "rad", constant
    pub spelling: String,
    pub canon: &'static str,
    pub arity: usize,
}

pub fn table() -> &'static Vec<Entry> {
    static CELL: OnceLock<Vec<Entry>> = OnceLock::new();
    CELL.get_or_init(|| {
        let mut v = Vec::new();
        for ev in Ev::ALL {
            for f in vocab::funcs(ev) {
                let arity = match f.arity {
                    Arity::One => 1,
                    Arity::Two => 2,
                    _ => continue, // aggregates: C11
                };
                if f.canon == "ilog" {
                    continue; // not specified by C10
                }
                if ev == Ev::Cpx {
                    continue; // complex functions: C08
                }
                v.push(Entry { ev, spelling: f.name.to_string(), canon: f.canon, arity });
            }
            if vocab::has_fact(ev) {
                v.push(Entry { ev, spelling: "!".into(), canon: "fact", arity: 1 });
            }
            if vocab::has_deg(ev) {
                v.push(Entry { ev, spelling: "°".into(), canon: "deg", arity: 1 });
                v.push(Entry { ev, spelling: "rad".into(), canon: "rad", arity: 1 });
            }
            if vocab::has_floor_brackets(ev) {
                v.push(Entry { ev, spelling: "⌊⌋".into(), canon: "floor", arity: 1 });
                v.push(Entry { ev, spelling: "⌈⌉".into(), canon: "ceil", arity: 1 });
            }
            for c in vocab::consts(ev) {
                v.push(Entry { ev, spelling: c.to_string(), canon: if *c == "e" { "const-e" } else { "const-pi" }, arity: 0 });
            }
        }
        v
    })
}

/// arguments for the factorial recurrence: generic values and values 1e-8 … 1e-6 from negative integers
const RECUR_ARGS: [&str; 30] = [
    "-5.00000001", "-10.00000002", "-3.000000001", "-2.0000001", "-20.000001", "-4.99999999", "-7.0000002", "-1.00000001", "-2.99999998", "-15.0000001", "-25.000001", "-6.000001", "0.5", "1.5", "2.5", "-0.5", "-1.5", "-2.5", "-3.5",
    "0.25", "3.75", "-4.25", "7.1", "-7.1", "12.75", "-12.25", "20.5", "-20.5", "0.1", "-0.9",
];

/// Principal branch of Lambert W by Halley's method from a branch-point series / logarithmic first guess, iterated
/// until the iterate is stationary. None when it does not settle.
pub fn ref_w0(x: f64) -> Option<f64> {
    if x == 0.0 {
        return Some(0.0);
    }
    if !(x >= -(-1.0f64).exp()) || !x.is_finite() {
        return None;
    }
    let mut w = if x < -0.25 {
        let p = (2.0 * (std::f64::consts::E * x + 1.0)).max(0.0).sqrt();
        -1.0 + p - p * p / 3.0 + 11.0 / 72.0 * p * p * p
    } else if x < 3.0 {
        let l = (1.0 + x).ln();
        l * (1.0 - (1.0 + l).ln() / (2.0 + l))
    } else {
        let l = x.ln();
        l - l.ln() + l.ln() / l
    };
    for _ in 0..200 {
        let e = w.exp();
        let f = w * e - x;
        let d = e * (w + 1.0) - (w + 2.0) * f / (2.0 * w + 2.0);
        if d == 0.0 || !d.is_finite() {
            return None;
        }
        let nw = w - f / d;
        if !nw.is_finite() {
            return None;
        }
        if (nw - w).abs() <= 4e-16 * nw.abs().max(1e-300) {
            return Some(nw);
        }
        w = nw;
    }
    None
}

/// grid of argument texts (decimal strings, so that every evaluator reads exactly the same number)
fn grid1(en: &Entry) -> Vec<String> {
    let int_only = en.ev == Ev::I64;
    let general: Vec<&str> = if int_only {
        vec!["0", "1", "2", "3", "4", "7", "10", "16", "17", "20", "25", "63", "64", "100", "1000", "65536", "1000000", "123456789", "4294967296", "9007199254740993", "(-1)", "(-2)", "(-7)", "(-100)", "(-65536)", "9223372036854775807"]
    } else {
        vec![
            "0", "0.1", "0.25", "0.5", "0.75", "1", "1.5", "2", "2.5", "3", "3.5", "4.75", "7", "10", "25", "100.5", "700", "1000000", "0.001", "0.000001", "(-0.1)", "(-0.25)", "(-0.5)", "(-0.75)", "(-1)", "(-1.5)", "(-2.5)", "(-3)", "(-3.5)",
            "(-7.5)", "(-20.25)", "(-150.5)", "150.5", "20", "21", "22", "23", "27", "28", "100", "170", "171", "12.75", "(-12.25)", "0.9", "(-0.9)", "1.05", "0.99", "(-0.99)", "2.4", "2.6", "(-2.4)", "(-2.6)", "4.5", "(-4.5)", "5", "6", "18",
            "2.718281828", "3.14159265", "1.4422495703074083", "1.44222", "1.4446678610097661", "0.36787944117144233", "(1+1+1+1+1+1+1+1+1+1+1+1+1+1+1+1+1+1+1+1+1+1+1+1+1+1+1+1+1+1+1+1+1+1+1+1+1+1+1+1+1+1+1+1+1+1+1+1+1+1+1+1+1+1+1+1+1+1+1+1+1+1+1+1+1+1+1+1+1+1+1+1+1+1+1+1+1+1+1+1+1+1+1+1+1+1+1+1+1+1+1+1+1+1+1+1+1+1+1+1+1+1+1+1+1+1+1+1+1+1+1+1+1+1+1+1+1+1+1+1+1)",
            "0.3678", "(-0.3678)", "(-0.36)", "(-0.2)", "50", "1000", "0.0001", "0.0", "(-0)", "(-0.0)", "1.0", "2.0", "3.0", "4.0", "5.0", "10.0", "20.0", "21.0", "(-1.0)", "(-3.0)", "170.0",
        ]
    };
    let mut out: Vec<String> = general.into_iter().map(|s| s.to_string()).collect();
    // arguments that are themselves operations (a function that looks at the shape of its argument instead of its value:
    // ln of a power taken apart, sqrt of a square cancelled ...), with negative bases under even powers
    if !int_only && matches!(en.canon, "pow" | "root") {
        // whole exponents / indices written or computed with decimals, for negative bases
        out.extend(["2.00", "4.000", "(1.5+1.5)", "(0.5*4)", "(6/2)", "(-2.0)", "(0.0)", "(-2)", "(-3)", "(-1.5)", "(-0.5)"].iter().map(|s| s.to_string()));
    }
    if int_only {
        out.extend(["((0-3)^2)", "((0-2)^4)", "((0-4)²)", "pow(0-5,2)", "((1-3)^0)", "(3*3)", "(81/9)", "(2^10)", "(5-(0-4))", "abs(0-16)", "(7%4)"].iter().map(|s| s.to_string()));
    } else {
        out.extend(["((0-3)^2)", "((0-2)^4)", "((0-4)²)", "pow(0-5,2)", "((1-3)^0)", "((0-1.5)^2)", "(3*3)", "(81/9)", "(2^10)", "(0.5*0.5)", "(5-(0-4))", "abs(0-16)", "sqrt(16)", "(0-(0-2.25))", "(7%4)"].iter().map(|s| s.to_string()));
    }
    if !int_only {
        // function-specific edges (kept away from the other functions: ln next to 1 is too ill-conditioned for a double
        // reference to judge a decimal argument)
        let extra: &[&str] = match en.canon {
            // next to whole numbers: a result snapped to the integer case is off by digamma(n+1)*delta
            "fact" => &["(-5.00000001)", "(-10.00000002)", "(-3.000000001)", "(-2.0000001)", "(-20.000001)", "(-4.99999999)", "(-7.0000002)", "3.0000000008", "6.0000000009", "20.0000000008", "19.9999999992", "150.0000000009", "100.000000002", "2.999999998", "1.0000000009", "0.9999999991", "10.00000001"],
            // next to the branch point -1/e
            "w" => &["(-0.36783)", "(-0.36785)", "(-0.3678)", "(-0.36781)", "(-0.367)", "(-0.3675)", "(-0.36787)", "(-0.35)", "(-0.3)", "(-0.36)", "(-0.365)"],
            _ => &[],
        };
        out.extend(extra.iter().map(|s| s.to_string()));
    }
    out
}

fn render(en: &Entry, args: &[String]) -> String {
    match en.spelling.as_str() {
        "!" => format!("{}!", args[0]),
        "°" => format!("{}°", args[0]),
        "rad" => format!("{}rad", args[0]),
        "⌊⌋" => format!("⌊{}⌋", args[0]),
        "⌈⌉" => format!("⌈{}⌉", args[0]),
        s if en.arity == 0 => s.to_string(),
        s => format!("{}({})", s, args.join(",")),
    }
}

fn parse_arg(s: &str) -> f64 {
    let t = s.trim_start_matches('(').trim_end_matches(')');
    if t.starts_with("1+1") {
        // a flat sum of ones: its value is the number of terms
        return t.split('+').count() as f64;
    }
    if let Ok(v) = t.parse::<f64>() {
        return v;
    }
    // an argument spelled as a compound expression: its value by the exact f64 reference (all such spellings in the grid
    // are exact in binary and in decimal)
    match crate::grammar::recognise(Ev::F64, s).accepted() {
        Some(e) => match f64r::eval(e, 0.0) {
            f64r::RF::Exact(v) => v,
            _ => f64::NAN,
        },
        None => f64::NAN,
    }
}

/// every eval_complex function name and alias (arity 1 and 2), ^, superscripts, ° and rad over real (both signs),
/// imaginary and generic complex arguments
fn complex_cases() -> &'static Vec<Case> {
    static CELL: OnceLock<Vec<Case>> = OnceLock::new();
    CELL.get_or_init(|| {
        let args = ["2", "0.5", "(-2)", "(-0.5)", "8", "(-10)", "0.75", "1.5", "i", "(-i)", "2i", "(1+2i)", "(-1+2i)", "(2-0.5i)", "(-3-4i)", "(0.5+0.25i)", "3", "(-3)"];
        let mut out = Vec::new();
        let mut push = |s: String| out.push(Case::new(Ev::Cpx, s, Val::default_for(Ev::Cpx)));
        for f in vocab::funcs(Ev::Cpx) {
            match f.arity {
                Arity::One => {
                    for a in args {
                        push(format!("{}({})", f.name, a));
                    }
                }
                Arity::Two => {
                    for a in args {
                        for b in args {
                            push(format!("{}({},{})", f.name, a, b));
                        }
                    }
                }
                _ => {}
            }
        }
        for a in args {
            push(format!("{}°", a));
            push(format!("{}rad", a));
            push(format!("{}²", a));
            push(format!("{}³", a));
            for b in args {
                push(format!("{}^{}", a, b));
                push(format!("{}/{}", a, b));
            }
        }
        out
    })
}

fn grid_cases() -> &'static Vec<Case> {
    static CELL: OnceLock<Vec<Case>> = OnceLock::new();
    CELL.get_or_init(|| {
        let mut out = Vec::new();
        for (ti, en) in table().iter().enumerate() {
            let g = grid1(en);
            let mut push = |args: Vec<String>| {
                let mut c = Case::new(en.ev, render(en, &args), Val::default_for(en.ev));
                c.aux = vec![ti.to_string()];
                c.aux.extend(args);
                out.push(c);
            };
            match en.arity {
                0 => push(vec![]),
                1 => {
                    for a in &g {
                        push(vec![a.clone()]);
                    }
                }
                _ => {
                    if en.canon == "pow" && !matches!(en.ev, Ev::I64) {
                        // (1 + 1/n)^n style probes: a base close to 1 with a huge (integral) exponent, and tiny results
                        for b in ["1.0000001", "1.00000001", "0.9999999", "1.000001", "1.000000001", "2.0", "2", "0.5", "(-1.0000001)"] {
                            for e in ["1000000", "10000000", "12345678", "100000000", "1000000000", "2000000000", "2147483647", "2147483648", "4000000000", "(-1074)", "(-1022)", "(-2000000000)", "1023", "1024"] {
                                push(vec![b.to_string(), e.to_string()]);
                            }
                        }
                    }
                    let g2: Vec<&String> = g.iter().step_by(2).collect();
                    for a in &g2 {
                        for b in &g2 {
                            push(vec![(*a).clone(), (*b).clone()]);
                        }
                    }
                }
            }
        }
        out
    })
}

/// random argument text: log-uniform magnitude, random sign, <= 8 significant digits
fn random_arg(en: &Entry, c: &mut dyn Choices) -> String {
    if en.ev == Ev::I64 {
        let mag = c.below(40);
        let v: i64 = match mag {
            0..=9 => c.below(20) as i64,
            10..=24 => c.below(100000) as i64,
            25..=34 => (c.below(65536) as i64) << c.below(20),
            _ => (c.below(65536) as i64) << (16 + c.below(31)),
        };
        return if c.below(4) == 0 && v != 0 { format!("(-{})", v) } else { format!("{}", v) };
    }
    // mantissa 1..99999999, decimal exponent by canon
    let (lo, hi): (i32, i32) = match en.canon {
        "exp" | "sinh" | "cosh" => (-6, if en.ev == Ev::Dec { 1 } else { 2 }),
        "exp2" => (-6, if en.ev == Ev::Dec { 1 } else { 2 }),
        "asin" | "acos" | "atanh" => (-6, -1),
        "fact" => (-3, 2),
        "w" => (-12, if en.ev == Ev::Dec { 27 } else { 300 }),
        "sin" | "cos" | "tan" => (-6, 5),
        _ => (-6, if en.ev == Ev::Dec { 12 } else { 15 }),
    };
    let e = lo + c.below((hi - lo + 1) as u32) as i32;
    let m = 1 + c.below(9999) as u64 * 10000 + c.below(10000) as u64;
    // value = m * 10^(e-7): write it as a plain decimal string
    let digits = format!("{}", m);
    let point = digits.len() as i32 + e - 7; // position of the decimal point relative to the digit string start
    let s = if point <= 0 {
        format!("0.{}{}", "0".repeat((-point) as usize), digits.trim_end_matches('0'))
    } else if point as usize >= digits.len() {
        format!("{}{}", digits, "0".repeat(point as usize - digits.len()))
    } else {
        let (a, b) = digits.split_at(point as usize);
        let b = b.trim_end_matches('0');
        if b.is_empty() {
            a.to_string()
        } else {
            format!("{}.{}", a, b)
        }
    };
    let s = if s.ends_with('.') { s.trim_end_matches('.').to_string() } else { s };
    let s = if s == "0." || s.is_empty() { "0".to_string() } else { s };
    let neg = match en.canon {
        "sqrt" | "ln" | "lb" | "acosh" => false,
        "w" => c.below(4) == 0,
        _ => c.below(3) == 0,
    };
    if neg {
        format!("(-{})", s)
    } else {
        s
    }
}

impl Prop for C10Prop {
    fn id(&self) -> &'static str {
        "C10"
    }
    fn rule(&self) -> String {
        "Cases are (evaluator, spelling, argument texts): the finite table of every README function name and alias of arity 1 and 2 (ilog excepted; aggregates are C11; eval_complex: sub-check `complex`, every name/alias, ^, superscripts, ° and rad over real arguments of both signs, imaginary and generic complex arguments, judged by C08's principal-branch reference at 1e-9, either one-sided limit accepted exactly on a cut), the postfix operators !, ° and rad, the ⌊⌋ ⌈⌉ brackets and the constants, per evaluator (about 170 pairs) x a fixed grid of about 65 decimal-string arguments over each domain incl. edges, halves, large and negative values (arity 2: grid^2 thinned), exhaustive; then random arguments with log-uniform magnitudes (<= 8 significant digits, so every evaluator reads exactly the same number). Oracles: exact functions compared exactly (round ties away from zero, ties to even in eval_decimal; sgn(0)=0; n! exact for n<=22); the others within 1e-9 relative of the host libm on the same argument (tgamma for non-integer factorials, skipping points within 0.01 of a pole); eval_i64 real-valued functions within 1 of the real result when below 2^53; Lambert W by its defining identity w*e^w = x within 1e-9*max(|x|,1e-300) and w >= -1, and - the identity being insensitive near w = -1 - by its value against an independent Halley iteration wherever 1+W >= 1e-3; constants bit-exact (f64, number) / 1e-27 (decimal). non-trivial (discriminating) = the expected value differs by more than 1e-6 relative from the argument(s) and from the value of at least three quarters of the other same-arity functions of that evaluator defined at that point (Lambert W and constants always count); distinct by (evaluator, input).".into()
    }
    fn assumptions(&self) -> Vec<String> {
        vec!["the host libm (glibc through Rust std, tgamma through FFI) is the reference for the approximate functions".into()]
    }
    fn subs(&self, tier: Tier) -> Vec<Sub> {
        vec![
            Sub { name: "grid", kind: SubKind::Enum { count: grid_cases().len() as u64 } },
            Sub { name: "complex", kind: SubKind::Enum { count: complex_cases().len() as u64 } },
            Sub { name: "fact-recurrence", kind: SubKind::Enum { count: 3 * RECUR_ARGS.len() as u64 } },
            Sub { name: "random", kind: SubKind::Random { cases: tier.pick(600_000, 30_000_000), len: 24 } },
        ]
    }
    fn gen_enum(&self, sub: &str, idx: u64, _tier: Tier) -> Option<Case> {
        if sub == "complex" {
            return complex_cases().get(idx as usize).cloned();
        }
        if sub == "fact-recurrence" {
            let ev = [Ev::Dec, Ev::F64, Ev::Num][(idx % 3) as usize];
            let k = (idx / 3) as usize % RECUR_ARGS.len();
            if ev != Ev::Dec && k < 12 {
                // next to a pole the double nearest to the decimal argument is already a different argument (Gamma magnifies
                // 4e-16 to 4e-8 there) and x-1 is rounded separately: only the decimal evaluator reads these exactly
                return None;
            }
            let x = RECUR_ARGS[k];
            let mut case = Case::new(ev, format!("({})!", x), Val::default_for(ev));
            case.aux = vec!["recurrence".into(), x.to_string()];
            return Some(case);
        }
        grid_cases().get(idx as usize).cloned()
    }
    fn gen(&self, _sub: &str, c: &mut dyn Choices) -> Option<Case> {
        let t = table();
        let ti = c.below(t.len() as u32) as usize;
        let en = &t[ti];
        let args: Vec<String> = (0..en.arity).map(|_| random_arg(en, c)).collect();
        let mut case = Case::new(en.ev, render(en, &args), Val::default_for(en.ev));
        case.aux = vec![ti.to_string()];
        case.aux.extend(args);
        Some(case)
    }
    fn check(&self, sub: &str, case: &Case, sc: &mut ShardCtx) -> Result<(), Failure> {
        if sub == "fact-recurrence" {
            // x! = x*(x-1)! evaluated by the evaluator itself: if both factorials are within 1e-9 of Gamma the two sides agree
            // within 2.5e-9. Decides arguments next to the poles, where a double reference cannot (the decimal argument is not
            // a double and Gamma magnifies the difference)
            let x = rust_decimal::Decimal::from_str_exact(&case.aux[1]).map_err(|_| Failure::new("harness/bad-case", "", ""))?;
            let xm1 = x - rust_decimal::Decimal::ONE;
            let ev = case.ev;
            let (a, b) = (format!("({})!", x), format!("({})*(({})!)", x, xm1));
            let (oa, ob) = match (eval_normal(sc, ev, &a, &case.ph), eval_normal(sc, ev, &b, &case.ph)) {
                (Some(p), Some(q)) => (p, q),
                _ => return Ok(()),
            };
            let (va, vb) = match (&oa, &ob) {
                (Outcome::Ok(p), Outcome::Ok(q)) => (p.as_f64(), q.as_f64()),
                _ => {
                    sc.exclude("a side is Err (not representable)");
                    return Ok(());
                }
            };
            if !(va.is_finite() && vb.is_finite()) || va.abs() < 1e-15 || va.abs() > 1e25 {
                sc.exclude("not finite / not representable with 1e-9 relative accuracy");
                return Ok(());
            }
            if (va - vb).abs() > 2.5e-9 * va.abs() {
                return Err(Failure::new(format!("{}/function/fact:recurrence", ev.name()), format!("x! = x*(x-1)! within 2.5e-9 relative (right side {:?})", vb), format!("{} (left side, x = {})", oa.show(), x)));
            }
            sc.class(&format!("{}:fact recurrence", ev.name()));
            sc.nontrivial(case.hash(), || sample(case, &oa.show()));
            return Ok(());
        }
        if sub == "complex" {
            // eval_complex offers these names too: principal-branch definitions (C08's reference and tolerance)
            return super::c08::C08.check("root", case, sc);
        }
        let ti: usize = case.aux.first().and_then(|s| s.parse().ok()).unwrap_or(usize::MAX);
        let en = match table().get(ti) {
            Some(e) => e,
            None => return Ok(()),
        };
        let ev = en.ev;
        // argument literals must be exactly representable in the evaluator (decimal: <= 28 digits etc.)
        if accept(ev, &case.input).is_none() {
            sc.exclude("argument literal not holdable");
            return Ok(());
        }
        let args: Vec<f64> = case.aux[1..].iter().map(|s| parse_arg(s)).collect();
        if args.iter().any(|a| a.is_nan()) {
            sc.exclude("argument text has no exact reference value");
            return Ok(());
        }
        let o = match eval_normal(sc, ev, &case.input, &case.ph) {
            Some(o) => o,
            None => return Ok(()),
        };
        let sig = |what: &str| format!("{}/function/{}:{}", ev.name(), en.canon, what);
        let spelled = format!("{} (spelling {:?})", en.canon, en.spelling);
        // constants
        if en.arity == 0 {
            let want = if en.canon == "const-e" { std::f64::consts::E } else { std::f64::consts::PI };
            let ok = match (&o, ev) {
                (Outcome::Ok(Val::F(g)), _) | (Outcome::Ok(Val::NF(g)), _) => g.to_bits() == want.to_bits(),
                (Outcome::Ok(Val::C(re, im)), _) => re.to_bits() == want.to_bits() && *im == 0.0,
                (Outcome::Ok(Val::D(d)), _) => {
                    let s = if en.canon == "const-e" { "2.7182818284590452353602874714" } else { "3.1415926535897932384626433833" };
                    (*d - dec(s)).abs() <= dec("0.000000000000000000000000001")
                }
                _ => false,
            };
            if !ok {
                return Err(Failure::new(sig("constant"), format!("{:?} (nearest double / 28 digits)", want), o.show()));
            }
            sc.class(&format!("{}:{}", ev.name(), en.spelling));
            sc.nontrivial(case.hash(), || sample(case, &o.show()));
            return Ok(());
        }
        // Lambert W: defining identity
        if en.canon == "w" {
            let x = args[0];
            if !(x >= -(-1.0f64).exp()) {
                // below -1/e: the documented evaluation error (boundary cases are left alone)
                if x < -0.3678795 && !o.is_err() {
                    return Err(Failure::new(sig("domain"), "Err (x < -1/e)", o.show()));
                }
                return Ok(());
            }
            if x < -0.36787944 {
                sc.exclude("w: within rounding distance of -1/e");
                return Ok(());
            }
            let w = match &o {
                Outcome::Ok(v) => v.as_f64(),
                _ => return Err(Failure::new(sig("defined"), "Ok(w) with w*e^w = x", o.show())),
            };
            let resid = (w * w.exp() - x).abs();
            // in log form when w*e^w overflows
            let ok = if x > 1e300 { (w + w.ln() - x.ln()).abs() <= 1e-9 } else { resid <= 1e-9 * x.abs().max(1e-300) };
            if !(ok && w >= -1.0) {
                return Err(Failure::new(sig("identity"), format!("w >= -1 with |w*e^w - {:?}| <= 1e-9*|x|", x), format!("w = {:?}, w*e^w = {:?}", w, w * w.exp())));
            }
            // the value itself: the identity is insensitive near w = -1 (d(w e^w)/dw = 0 there), so W is also compared with
            // an independent Halley iteration run to convergence in f64, wherever that is conditioned well enough
            // (1 + W >= 1e-3) for a 1e-9 claim
            if x < 1e300 {
                if let Some(wr) = ref_w0(x) {
                    if wr + 1.0 >= 1e-3 && !f64r::close(w, wr, 1e-9) && !(wr == 0.0 && w.abs() < 1e-300) {
                        return Err(Failure::new(sig("value"), format!("W0({:?}) = {:?} within 1e-9 relative", x, wr), format!("w = {:?}", w)));
                    }
                }
            }
            sc.class(&format!("{}:{}", ev.name(), en.spelling));
            if x != 0.0 {
                sc.nontrivial(case.hash(), || sample(case, &o.show()));
            }
            return Ok(());
        }
        let want = match host(en.canon, &args) {
            Some(v) => v,
            None => {
                sc.exclude("function undefined (or not claimed) at this point");
                return Ok(());
            }
        };
        if ev == Ev::Dec && en.canon == "mod" {
            // decimal remainder is exact in base 10 (the binary host fmod is not the oracle): C07's oracle
            use crate::refeval::decr::{self, DecV};
            let parse = |t: &str| {
                let neg = t.contains('-');
                let body = t.trim_start_matches('(').trim_end_matches(')').trim_start_matches('-');
                DecV::from_literal(body).map(|v| if neg { v.neg() } else { v })
            };
            if let (Some(a), Some(b)) = (parse(&case.aux[1]), parse(&case.aux[2])) {
                return match decr::agrees(&decr::rem(&a, &b), &o) {
                    Some(false) => Err(Failure::new(sig("exact"), format!("exact decimal remainder of {} by {}", a.show(), b.show()), o.show())),
                    _ => {
                        sc.class(&format!("{}:{}", ev.name(), en.spelling));
                        sc.nontrivial(case.hash(), || sample(case, &o.show()));
                        Ok(())
                    }
                };
            }
            return Ok(());
        }
        if ev == Ev::Dec && matches!(en.canon, "pow" | "root") {
            // the host evaluates on the double nearest to the decimal argument; its relative representation error
            // (up to 1.1e-16) is amplified by the exponent, so beyond |y| = 1e5 the host is no 1e-9 oracle for a base
            // that is not exactly representable in binary
            let (base, expo) = if en.canon == "pow" { (args[0], args[1]) } else { (args[1], 1.0 / args[0]) };
            let dyadic = (base * 1099511627776.0).fract() == 0.0;
            if expo.abs() > 1e5 && !dyadic {
                sc.exclude("decimal: host oracle not accurate enough (huge exponent on a non-dyadic base)");
                return Ok(());
            }
        }
        if ev == Ev::Dec && !exact_fn(en.canon, &args) && want.abs() < 1e-15 && want != 0.0 {
            sc.exclude("decimal: result too small to be represented to 1e-9 relative with 28 fractional digits");
            return Ok(());
        }
        // representability in the evaluator's type
        let exact = EXACT.contains(&en.canon) || (en.canon == "fact" && args[0].fract() == 0.0 && args[0] <= 22.0);
        let ok = match (ev, &o) {
            (Ev::I64, Outcome::Ok(Val::I(g))) => {
                if exact {
                    want.abs() < 9.3e18 && (*g as f64) == want && want.fract() == 0.0
                } else if want.is_finite() && want.abs() < 9007199254740992.0 {
                    ((*g as f64) - want).abs() <= 1.0
                } else {
                    sc.exclude("i64: real result beyond 2^53 (no claim)");
                    return Ok(());
                }
            }
            (Ev::I64, Outcome::Err) => {
                // exact functions must not fail when the result fits; real-valued ones have no Err clause
                if exact && want.abs() < 9.2e18 {
                    false
                } else {
                    sc.exclude("i64: Err on a real-valued function (no claim)");
                    return Ok(());
                }
            }
            (Ev::Dec, Outcome::Err) => {
                // out of the Decimal range (or of the library's exp/ln range): "defined and representable" fails
                // (a zero result at zero arguments is representable; other zeros of the f64 reference may be underflow)
                if want.is_finite() && want.abs() < 1e27 && (want.abs() > 1e-26 || (want == 0.0 && args.iter().all(|a| *a == 0.0))) && !(en.canon == "fact" && args[0] > 27.0) && args.iter().all(|a| a.abs() < 1e27) {
                    // well inside the range: an Err is wrong, unless an intermediate (ln of the base, exp) legitimately overflows
                    let intermediate_big = matches!(en.canon, "pow" | "root" | "exp" | "exp2" | "fact") && (want.abs() > 1e25 || (en.canon == "fact" && args[0].fract() != 0.0 && args[0] > 25.0));
                    if intermediate_big {
                        sc.exclude("decimal: intermediate leaves the Decimal range");
                        return Ok(());
                    }
                    false
                } else {
                    sc.exclude("decimal: result not representable (Err accepted)");
                    return Ok(());
                }
            }
            (_, Outcome::Ok(v)) => {
                let g = v.as_f64();
                if !want.is_finite() {
                    if ev == Ev::Dec {
                        sc.exclude("decimal: result not representable");
                        return Ok(());
                    }
                    g == want
                } else if exact {
                    if en.canon == "round" && ev == Ev::Dec {
                        // ties to even in eval_decimal
                        let x = args[0];
                        let r = if (x - x.trunc()).abs() == 0.5 {
                            let t = x.trunc();
                            if t % 2.0 == 0.0 {
                                t
                            } else {
                                t + x.signum()
                            }
                        } else {
                            x.round()
                        };
                        g == r
                    } else {
                        g == want
                    }
                } else {
                    f64r::close(g, want, 1e-9) || (want == 0.0 && g.abs() < 1e-300)
                }
            }
            (_, Outcome::Err) => false,
            _ => false,
        };
        if !ok {
            return Err(Failure::new(sig(if exact { "exact" } else { "1e-9" }), format!("{:?} = {}({:?}){}", want, spelled, args, if exact { " exactly" } else { " within 1e-9 relative" }), o.show()));
        }
        sc.class(&format!("{}:{}", ev.name(), en.spelling));
        // discriminating: differs from the argument(s) and from most other same-arity functions of the evaluator
        // (round/trunc coincide with floor or ceil at every single point, so "all" would be unsatisfiable)
        let scale = want.abs().max(1e-300);
        let mut discriminating = args.iter().all(|a| (a - want).abs() > 1e-6 * scale);
        if discriminating {
            let (mut same, mut differ) = (0, 0);
            for other in table().iter().filter(|t| t.ev == ev && t.arity == en.arity && t.canon != en.canon && t.canon != "w") {
                if let Some(v) = host(other.canon, &args) {
                    if (v - want).abs() <= 1e-6 * scale {
                        same += 1;
                    } else {
                        differ += 1;
                    }
                }
            }
            discriminating = differ > 3 * same;
        }
        if discriminating {
            sc.class(&format!("discriminating {}:{}", ev.name(), en.spelling));
            sc.nontrivial(case.hash(), || sample(case, &o.show()));
        }
        Ok(())
    }
}
