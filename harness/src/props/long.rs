//! Long and deep inputs shared by several properties: flat operator chains, nested calls and brackets,
//! prefix / postfix chains and juxtaposition chains whose length or depth goes well beyond what the random
//! tree generators reach (and beyond 256 characters, which only C01 limits). A chain of N operands is
//! the kind of input on which depth guards, "long sum" fast paths and re-balancing parsers show.

use crate::api::Ev;
use crate::vocab;

/// lengths around the powers of two and round numbers where thresholds live
pub const LENGTHS: [usize; 22] = [2, 3, 8, 16, 17, 18, 20, 21, 31, 32, 33, 63, 64, 65, 99, 100, 101, 127, 128, 129, 130, 200];
pub const LONG_LENGTHS: [usize; 6] = [255, 256, 257, 300, 400, 512];

fn operand_sets(ev: Ev) -> Vec<Vec<&'static str>> {
    // (first operand, middle operands…, last operands) patterns: uniform, order-sensitive, boundary
    match ev {
        Ev::I64 => vec![vec!["1"], vec!["9223372036854775807", "0", "(-2)"], vec!["3", "2"], vec!["4611686018427387904", "(-1)", "1"]],
        Ev::Dec => vec![vec!["1"], vec!["0.1"], vec!["79228162514264337593543950335", "0", "(-2)"], vec!["1.5", "2"], vec!["0.0000000000000000000000000001", "1"]],
        Ev::Cpx => vec![vec!["1"], vec!["(1+2i)", "2"], vec!["10000000000000000.0", "1.0"], vec!["i", "0.5"]],
        Ev::Num => vec![vec!["1"], vec!["9223372036854775807", "1", "0", "(-2)"], vec!["10000000000000000.0", "1.0"], vec!["9007199254740993", "1", "(-1)"], vec!["0.1", "0.2"], vec!["3", "2"]],
        Ev::F64 => vec![vec!["1"], vec!["10000000000000000.0", "1.0"], vec!["0.1", "0.2"], vec!["3", "2"], vec!["9007199254740993", "1", "(-1)"]],
    }
}

fn chain(op: &str, set: &[&str], n: usize) -> String {
    // first operand = set[0]; the remaining n-1 operands cycle through the rest (or repeat set[0])
    let rest: Vec<&str> = if set.len() > 1 { set[1..].to_vec() } else { vec![set[0]] };
    let mut s = String::from(set[0]);
    for i in 0..n.saturating_sub(1) {
        s.push_str(op);
        s.push_str(rest[i % rest.len()]);
    }
    s
}

/// Every long form for one evaluator. `very_long` adds the lengths beyond 256.
pub fn forms(ev: Ev, very_long: bool) -> Vec<String> {
    let mut lens: Vec<usize> = LENGTHS.to_vec();
    if very_long {
        lens.extend(LONG_LENGTHS);
    }
    let mut out = Vec::new();
    for n in &lens {
        let n = *n;
        // flat chains of every infix operator
        for op in vocab::infix(ev) {
            for set in operand_sets(ev) {
                if (*op == "^" || *op == "<<" || *op == ">>") && set[0].len() > 2 {
                    continue;
                }
                out.push(chain(op, &set, n));
            }
        }
        // alternating operators of one level
        out.push(chain("-", &["1", "1"], n).replacen("-1", "+1", n / 2));
        // brackets, prefix and postfix chains
        out.push(format!("{}7{}", "(".repeat(n), ")".repeat(n)));
        out.push(format!("{}1", "-".repeat(n)));
        out.push(format!("{}1", "+".repeat(n)));
        out.push(format!("+{}7{}", "(".repeat(n), ")".repeat(n)));
        out.push(format!("({}7{})", "(".repeat(n), ")".repeat(n)));
        if vocab::has_fact(ev) {
            out.push(format!("1{}", "!".repeat(n)));
            out.push(format!("3{}", "!".repeat(n.min(3))));
        }
        if vocab::has_deg(ev) {
            out.push(format!("1{}", "°".repeat(n)));
        }
        if vocab::has_floor_brackets(ev) {
            out.push(format!("{}1.5{}", "⌊".repeat(n), "⌋".repeat(n)));
        }
        // nested calls
        for f in ["abs", "sqrt", "min", "max", "sgn", "exp", "w"] {
            if vocab::func(ev, f).is_some() && n <= 200 {
                out.push(format!("{}1{}", format!("{}(", f).repeat(n), ")".repeat(n)));
            }
        }
        // flat chains whose operands are calls (counters of brackets or calls that are incremented more often than
        // decremented refuse the n-th call although nothing is nested)
        for call in ["abs(1)", "sqrt(4)", "pow(2,2)", "mod(7,4)", "max(0,1)", "min(2,1,3)", "avg(1,3)", "med(1,2,3)", "gcd(4,6)", "sin(0)", "floor(1.5)", "root(2,4)", "log(8,2)"] {
            let name = &call[..call.find('(').unwrap()];
            let arg_ok = !(ev == Ev::I64 && call.contains('.'));
            if vocab::func(ev, name).is_some() && arg_ok {
                out.push(chain("+", &[call], n));
                if n % 2 == 0 {
                    out.push(chain("*", &[call], n));
                }
            }
        }
        // juxtaposition chains: one long product, and a long sum of products
        out.push(format!("2{}", "(1)".repeat(n)));
        out.push(chain("+", &["2(3)"], n));
        // long argument lists
        for f in ["min", "max", "avg", "med", "median", "gcd", "lcm"] {
            if vocab::func(ev, f).is_some() {
                let args: Vec<String> = (0..n).map(|i| format!("{}", (i * 37 + 11) % 101)).collect();
                out.push(format!("{}({})", f, args.join(",")));
                let sorted: Vec<String> = (0..n).map(|i| format!("{}", i)).collect();
                out.push(format!("{}({})", f, sorted.join(",")));
            }
        }
    }
    out.sort();
    out.dedup();
    out
}

/// Thousands of calls in one flat expression (guards with limits in the thousands). Kept apart from `forms`: only the
/// properties for which the evaluator's recursion depth on such input is known to be safe use it.
pub fn huge(ev: Ev) -> Vec<String> {
    let mut out = Vec::new();
    for n in [1000usize, 2048, 4096, 4097, 5000] {
        for call in ["pow(2,2)", "mod(7,4)", "abs(1)", "max(0,1)"] {
            let name = &call[..call.find('(').unwrap()];
            if vocab::func(ev, name).is_some() {
                out.push(chain("+", &[call], n));
            }
        }
        out.push(chain("+", &["1"], n));
    }
    out
}

/// (evaluator, form) pairs, cached.
pub fn all(very_long: bool) -> &'static Vec<(Ev, String)> {
    use std::sync::OnceLock;
    static A: OnceLock<Vec<(Ev, String)>> = OnceLock::new();
    static B: OnceLock<Vec<(Ev, String)>> = OnceLock::new();
    let cell = if very_long { &A } else { &B };
    cell.get_or_init(|| {
        let mut v = Vec::new();
        for ev in Ev::ALL {
            for f in forms(ev, very_long) {
                v.push((ev, f));
            }
        }
        v
    })
}
