//! C18 — "For every f64 v, Number::from(v) is Integer(n) exactly when v is finite, integral and within
//! the i64 range, and then n equals v numerically; otherwise it is Float(v) with v's bits unchanged (NaN
//! stays NaN, infinities stay infinities). Number::from(i64) is Integer of the same value."
//!
//! Oracle: classification from the raw bits (sign, exponent, mantissa) — no float arithmetic.

use super::common::*;
use crate::api::{self, Ev, Outcome, Val};
use crate::choice::Choices;
use crate::run::{Case, Failure, Prop, ShardCtx, Sub, SubKind, Tier};
use std::sync::OnceLock;

/// calls that succeed but go through an unusual path (overflow fallbacks, type changes, huge results): state they leave
/// behind must not reach the conversion either
const AFTER_OK: [&str; 12] = ["9223372036854775807+1", "3037000500*3037000500", "2^64", "21!", "(0-9223372036854775807)-2", "1/3", "2^0.5", "floor(2.5)", "9007199254740993*3", "170!", "w(1)", "1/0.0"];

pub struct C18Prop;
pub static C18: C18Prop = C18Prop;

/// Expected conversion, from the bit pattern alone.
pub fn classify(bits: u64) -> Result<i64, ()> {
    let sign = bits >> 63 == 1;
    let exp = ((bits >> 52) & 0x7ff) as i64;
    let frac = bits & 0x000f_ffff_ffff_ffff;
    if exp == 0x7ff {
        return Err(()); // NaN / inf
    }
    if exp == 0 {
        // zero or subnormal
        return if frac == 0 { Ok(0) } else { Err(()) };
    }
    let e = exp - 1075; // value = m * 2^e with m = 2^52 | frac
    let m = (1u64 << 52) | frac;
    let mag: u128 = if e >= 0 {
        if e > 11 {
            return Err(()); // >= 2^64
        }
        (m as u128) << e
    } else {
        let sh = (-e) as u32;
        if sh >= 64 {
            return Err(());
        }
        if m & ((1u64 << sh) - 1) != 0 {
            return Err(()); // fractional bits set
        }
        (m >> sh) as u128
    };
    if sign {
        if mag <= 1u128 << 63 {
            Ok((-(mag as i128)) as i64)
        } else {
            Err(())
        }
    } else if mag < 1u128 << 63 {
        Ok(mag as i64)
    } else {
        Err(())
    }
}

fn boundary_set() -> &'static Vec<u64> {
    static CELL: OnceLock<Vec<u64>> = OnceLock::new();
    CELL.get_or_init(|| {
        let mut v: Vec<u64> = Vec::new();
        let mut push3 = |b: u64| {
            for d in [-2i64, -1, 0, 1, 2] {
                v.push(b.wrapping_add(d as u64));
            }
        };
        // every power of two with neighbours, both signs
        for e in -1074i32..=1023 {
            let b = (2f64).powi(e).to_bits();
            push3(b);
            push3(b | (1 << 63));
        }
        // 2^63, 2^64 with +-4 ulps
        for x in [9223372036854775808.0f64, 18446744073709551616.0, 4611686018427387904.0, 9007199254740992.0, 4503599627370496.0] {
            for d in -4i64..=4 {
                v.push(x.to_bits().wrapping_add(d as u64));
                v.push((-x).to_bits().wrapping_add(d as u64));
            }
        }
        // 2^k +- 1, 2^k +- 0.5
        for k in 0..=64 {
            let p = (2f64).powi(k);
            for x in [p + 1.0, p - 1.0, p + 0.5, p - 0.5, p + 0.25, p * 1.5, p + 2.0] {
                v.push(x.to_bits());
                v.push((-x).to_bits());
            }
        }
        // integer pool: n, n + 0.5, n * (1 +- eps)
        for n in i64_pool() {
            let x = n as f64;
            for y in [x, x + 0.5, x - 0.5, x * (1.0 + f64::EPSILON), x * (1.0 - f64::EPSILON)] {
                v.push(y.to_bits());
            }
        }
        for b in [0u64, 1 << 63, 1, (1 << 63) | 1, 0x000f_ffff_ffff_ffff, 0x0010_0000_0000_0000, 0x7ff0_0000_0000_0000, 0xfff0_0000_0000_0000, 0x7ff8_0000_0000_0000, 0xfff8_0000_0000_0000, 0x7ff0_0000_0000_0001, 0xfff0_0000_0000_0001, 0x7ff8_0000_dead_beef, 0x7fff_ffff_ffff_ffff, 0xffff_ffff_ffff_ffff, 0x7fef_ffff_ffff_ffff, 0xffef_ffff_ffff_ffff] {
            v.push(b);
        }
        for k in -50..=50 {
            v.push((k as f64 * 0.5).to_bits());
            v.push((k as f64 + 0.4).to_bits());
            v.push((k as f64 * 0.1).to_bits());
        }
        v.sort();
        v.dedup();
        v
    })
}

fn bits_from(c: &mut dyn Choices) -> u64 {
    let mut b = 0u64;
    for _ in 0..4 {
        b = (b << 16) | c.below(65536) as u64;
    }
    b
}

impl Prop for C18Prop {
    fn id(&self) -> &'static str {
        "C18"
    }
    fn rule(&self) -> String {
        "Cases are double bit patterns (and i64 values). Exhaustive structured boundary set: every power of two 2^-1074..2^1023 of both signs with +-2 ulps, +-2^52/2^53/2^62/2^63/2^64 with +-4 ulps, 2^k+-1, 2^k+-0.5, 2^k*1.5 for k<=64, the integer pool with +-0.5 and +-1 ulp, +-0, min/max subnormals, infinities, quiet/signalling NaNs of both signs with payloads, halves and tenths; then uniformly random 64-bit patterns and random patterns with exponent restricted to 2^40..2^70. Number::from(i64): i64 pool + random. Oracle: integrality and range decided from sign/exponent/mantissa bits, expected integer from the shifted mantissa in 128-bit arithmetic; Float results must keep the bit pattern. non-trivial = |v| in [2^52, 2^65], non-finite, subnormal, or a non-integral value whose distance to an integer is < 2^-20 relative; distinct by bit pattern.".into()
    }
    fn subs(&self, tier: Tier) -> Vec<Sub> {
        vec![
            Sub { name: "boundary", kind: SubKind::Enum { count: boundary_set().len() as u64 } },
            Sub { name: "random", kind: SubKind::Random { cases: tier.pick(1_000_000, 100_000_000), len: 6 } },
            Sub { name: "random-exp", kind: SubKind::Random { cases: tier.pick(1_000_000, 100_000_000), len: 6 } },
            Sub { name: "after-failures", kind: SubKind::Enum { count: (failing_templates(Ev::Num).len() + AFTER_OK.len()) as u64 } },
            Sub { name: "from-i64", kind: SubKind::Random { cases: tier.pick(200_000, 10_000_000), len: 6 } },
        ]
    }
    fn gen_enum(&self, sub: &str, idx: u64, _tier: Tier) -> Option<Case> {
        if sub == "after-failures" {
            // the conversion is a pure function of the double: it must not change after failing eval_number calls on the thread
            let mut case = Case::new(Ev::Num, format!("{:#018x}", 42.0f64.to_bits()), Val::NI(0));
            let ts = failing_templates(Ev::Num);
            let t = if (idx as usize) < ts.len() { ts[idx as usize].clone() } else { AFTER_OK.get(idx as usize - ts.len())?.to_string() };
            case.aux = vec!["after".into(), t];
            return Some(case);
        }
        let b = boundary_set()[idx as usize];
        Some(Case::new(Ev::Num, format!("{:#018x}", b), Val::NI(0)))
    }
    fn gen(&self, sub: &str, c: &mut dyn Choices) -> Option<Case> {
        match sub {
            "random" => Some(Case::new(Ev::Num, format!("{:#018x}", bits_from(c)), Val::NI(0))),
            "random-exp" => {
                let sign = c.below(2) as u64;
                let exp = 1023 + 40 + c.below(31) as u64;
                // mantissas with long runs of zeros are the interesting ones: mask off a random number of low bits
                let keep = c.below(53);
                let mut frac = bits_from(c) & 0x000f_ffff_ffff_ffff;
                if keep < 52 {
                    frac &= !((1u64 << (52 - keep)) - 1);
                }
                Some(Case::new(Ev::Num, format!("{:#018x}", (sign << 63) | (exp << 52) | frac), Val::NI(0)))
            }
            _ => {
                let v = if c.below(3) == 0 {
                    let p = i64_pool();
                    p[c.below(p.len() as u32) as usize]
                } else {
                    bits_from(c) as i64
                };
                let mut case = Case::new(Ev::Num, format!("{}", v), Val::NI(0));
                case.aux = vec!["i64".into()];
                Some(case)
            }
        }
    }
    fn check(&self, sub: &str, case: &Case, sc: &mut ShardCtx) -> Result<(), Failure> {
        if sub == "after-failures" {
            if let Some(t) = case.aux.get(1) {
                for _ in 0..3 {
                    let _ = api::eval(Ev::Num, t, &Val::NI(5));
                }
                sc.evals(3);
                for v in [42.0f64, -7.0, 0.0, 3e9, 9007199254740992.0, -0.0, 2.5, 1e300, 1152921504606846976.0, 9007199254740994.0, -4611686018427387904.0, 1e18] {
                    let c2 = Case::new(Ev::Num, format!("{:#018x}", v.to_bits()), Val::NI(0));
                    self.check("boundary", &c2, sc).map_err(|mut f| {
                        f.detail = format!("after three failing calls of eval_number({:?}) on this thread", t);
                        f
                    })?;
                }
                return Ok(());
            }
        }
        sc.evals(1);
        if case.aux.first().map(|s| s == "i64").unwrap_or(false) {
            let v: i64 = case.input.parse().map_err(|_| Failure::new("harness/bad-case", "", ""))?;
            let o = api::number_from_i64(v);
            if !matches!(&o, Outcome::Ok(Val::NI(g)) if *g == v) {
                return Err(Failure::new("number/from-i64", format!("Integer({})", v), o.show()));
            }
            if v.unsigned_abs() >= 1 << 52 {
                sc.nontrivial(case.hash(), || serde_json::json!({"from_i64": v, "result": o.show()}));
            }
            return Ok(());
        }
        let bits = u64::from_str_radix(case.input.trim_start_matches("0x"), 16).map_err(|_| Failure::new("harness/bad-case", "", ""))?;
        let v = f64::from_bits(bits);
        let o = api::number_from_f64(v);
        let want = classify(bits);
        let ok = match (&want, &o) {
            (Ok(n), Outcome::Ok(Val::NI(g))) => n == g,
            (Err(()), Outcome::Ok(Val::NF(g))) => {
                // "Float(v) with v's bits unchanged": NaNs keep their sign, quiet bit and payload as well
                g.to_bits() == bits
            }
            _ => false,
        };
        if !ok {
            let cls = match (&want, &o) {
                (_, Outcome::Panic(_, _)) => "panic",
                (Ok(_), Outcome::Ok(Val::NI(_))) => "wrong-integer",
                (Ok(_), _) => "float-instead-of-integer",
                (Err(()), Outcome::Ok(Val::NI(_))) => "integer-instead-of-float",
                _ => "float-bits-changed",
            };
            let w = match want {
                Ok(n) => format!("Integer({})", n),
                Err(()) => format!("Float({:?}) with bits {:#018x}", v, bits),
            };
            return Err(Failure::new(format!("number/from-f64/{}", cls), w, format!("{} [{}]", o.show(), o.enc())));
        }
        sc.class(match want {
            Ok(_) => "Integer",
            Err(()) => {
                if v.is_nan() {
                    "Float(NaN)"
                } else if v.is_infinite() {
                    "Float(inf)"
                } else {
                    "Float(finite)"
                }
            }
        });
        let a = v.abs();
        let near_int = a.is_finite() && a.fract() != 0.0 && ((a - a.round()).abs() < a * (2f64).powi(-20));
        if !v.is_finite() || (a >= 4503599627370496.0 && a <= 36893488147419103232.0) || (a != 0.0 && a < f64::MIN_POSITIVE) || near_int {
            sc.nontrivial(bits, || serde_json::json!({"bits": format!("{:#018x}", bits), "value": format!("{:?}", v), "result": o.show()}));
        }
        Ok(())
    }
}
