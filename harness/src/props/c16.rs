//! C16 — "The result of a call depends only on its two arguments: any sequence of earlier calls
//! (successful or failing, to the same or other evaluators, with the same expression and a different
//! placeholder) and any number of concurrent calls on other threads leave it unchanged, bit for bit. The
//! library keeps no state between calls."
//!
//! Reference model = "no state": every occurrence of a key (evaluator, expression, placeholder) must
//! return the outcome of its isolated first-time evaluation, which is computed by a fresh child process
//! that makes exactly that one call.

use super::common::*;
use crate::api::{self, Ev, Outcome, Val};
use crate::choice::Choices;
use crate::gen::{self, Profile};
use crate::grammar;
use crate::vocab;
use crate::run::{Case, Failure, Prop, ShardCtx, Sub, SubKind, Tier};
use std::collections::HashMap;
use std::sync::{Mutex, OnceLock};

pub struct C16Prop;
pub static C16: C16Prop = C16Prop;

type Key = (Ev, String, String); // evaluator, placeholder encoding, expression

fn baseline_cache() -> &'static Mutex<HashMap<Key, String>> {
    static CELL: OnceLock<Mutex<HashMap<Key, String>>> = OnceLock::new();
    CELL.get_or_init(|| Mutex::new(HashMap::new()))
}

/// isolated first-time evaluation: a fresh process that makes exactly this one call
fn isolated(key: &Key) -> Option<String> {
    if let Some(v) = baseline_cache().lock().unwrap().get(key) {
        return Some(v.clone());
    }
    let exe = std::env::current_exe().ok()?;
    let out = std::process::Command::new(exe).args(["eval1", key.0.name(), &key.1, &key.2]).output().ok()?;
    if !out.status.success() {
        return None;
    }
    let s = String::from_utf8_lossy(&out.stdout).trim().to_string();
    baseline_cache().lock().unwrap().insert(key.clone(), s.clone());
    Some(s)
}

fn call(key: &Key) -> String {
    let ph = Val::dec(&key.1).unwrap();
    api::eval(key.0, &key.2, &ph).enc()
}

fn dictionary(c: &mut dyn Choices, n: usize) -> Vec<(Ev, String)> {
    let mut v = Vec::new();
    for _ in 0..n {
        let ev = Ev::ALL[c.below(5) as usize];
        let mut p = Profile::full(ev);
        p.max_depth = 3;
        p.funcs.retain(|f| f.canon != "ilog");
        let s = grammar::render(&gen::gen_expr(&p, c, p.max_depth));
        let s = match c.below(9) {
            0 => gen::mutate(ev, &s, c).0,         // malformed
            1 => format!("{}/0+w(-5)", s),          // error-producing in most evaluators
            2 | 3 => format!("{}+@", s),
            // rejected by the lexer (scratch buffers of the literal scanner, error paths that return early)
            4 => format!("{}+{}", s, ["1.2.3", "1..5", "3.14.15", "99999999999999999999999999999999999999", "#", "2$", ".", "1.2.3.4+7"][c.below(8) as usize]),
            // aggregates around failing and around nested aggregates (shared accumulators)
            5 => {
                let agg = ["min", "max", "avg", "med", "median"][c.below(5) as usize];
                let inner = ["w(-5)", "1/0*w(-5)", "med(1,2,3)", "max(4,min(5,6))", "med(7,w(-5),9)", "@"][c.below(6) as usize];
                match c.below(3) {
                    0 => format!("{}({},2,{})", agg, inner, s),
                    1 => format!("{}(5,9,{})", agg, inner),
                    _ => format!("{}(1,2,{})+{}(10,20,30)", agg, inner, agg),
                }
            }
            // long aggregate lists with numerically equal values in different spellings at the middle ranks (selection
            // algorithms with their own state decide which representation comes out)
            6 if ev != Ev::Cpx => {
                let agg = ["med", "median", "min", "max", "avg"][c.below(5) as usize];
                let vals: &[&str] = if ev == Ev::I64 { &["9", "3", "12", "9", "15", "1", "18", "9", "7"] } else { &["9", "9.0", "9.00", "3", "3.0", "12", "7.5", "7.50", "15", "1", "18", "9.000", "0", "0.0", "-0.0"] };
                let n = 17 + c.below(14) as usize;
                let list: Vec<&str> = (0..n).map(|_| vals[c.below(vals.len() as u32) as usize]).collect();
                format!("{}({})", agg, list.join(","))
            }
            // short in characters, long in bytes: sums of terms written with π, superscripts, ° and ⌊⌋⌈⌉ (about 24..32
            // characters, 30..50 bytes)
            7 => {
                let mut terms: Vec<&str> = vec!["2²", "3³", "7²", "(1+2)²", "5³", "2²³"];
                if ev != Ev::I64 {
                    terms.extend(["π²", "π³", "sin(π)²", "cos(π/4)²", "e²", "π/2"]);
                }
                if vocab::has_deg(ev) {
                    terms.extend(["π°", "90°", "45°²"]);
                }
                if vocab::has_floor_brackets(ev) {
                    terms.extend(["⌊π⌋", "⌈2.5⌉", "⌊2.5⌋²"]);
                }
                if ev == Ev::Cpx {
                    terms.extend(["(1+2i)²", "i³"]);
                }
                let target = 22 + c.below(9) as usize;
                let mut t = String::from(terms[c.below(terms.len() as u32) as usize]);
                while t.chars().count() < target {
                    t.push(['+', '-', '*'][c.below(3) as usize]);
                    t.push_str(terms[c.below(terms.len() as u32) as usize]);
                }
                t.push_str(["+@", "-@", "+1", "*2", ""][c.below(5) as usize]);
                t
            }
            _ => s,
        };
        // non-ASCII spellings (byte length and character count differ: fixed-size keys, truncation)
        let s = if c.below(4) == 0 { s.replace("pi", "π").replace("^2", "²").replace("^3", "³") } else { s };
        // whitespace anywhere (it is stripped before lexing): copies of the stripped text are another place for state
        let s = if c.below(3) == 0 {
            let mut cs: Vec<char> = s.chars().collect();
            for _ in 0..(1 + c.below(4)) {
                let at = c.below(cs.len() as u32 + 1) as usize;
                cs.insert(at, [' ', ' ', '\t', '\n', '\u{a0}', '\u{2009}', '\u{3000}'][c.below(7) as usize]);
            }
            cs.into_iter().collect()
        } else {
            s
        };
        if char_len(&s) <= 120 {
            v.push((ev, s));
        }
    }
    // argument sweeps: one function evaluated at several nearby arguments (warm-started iterations, last-argument
    // memos and similar state show up only when related calls follow each other)
    let sweeps = 1 + c.below(3);
    for _ in 0..sweeps {
        let ev = [Ev::F64, Ev::Num, Ev::Dec, Ev::Cpx, Ev::I64][c.below(5) as usize];
        let fs: Vec<_> = vocab::funcs(ev).into_iter().filter(|f| f.arity == vocab::Arity::One).collect();
        // Lambert W, factorial and the iterative functions get extra weight
        let name = match c.below(4) {
            0 if vocab::func(ev, "w").is_some() => "w",
            1 if vocab::func(ev, "lambert_w").is_some() => "lambert_w",
            _ => fs[c.below(fs.len() as u32) as usize].name,
        };
        let base = 1 + c.below(400) as i64;
        for k in 0..(3 + c.below(4)) as i64 {
            let arg = if ev == Ev::I64 { format!("{}", base + k) } else { format!("{}.{}", (base + k * 7) / 10, (base + k * 7) % 10) };
            v.push((ev, format!("{}({})", name, arg)));
            if vocab::has_fact(ev) && k == 0 {
                v.push((ev, format!("{}!", arg)));
            }
        }
    }
    if v.is_empty() {
        v.push((Ev::F64, "1+@".into()));
    }
    v
}

/// (evaluator, expression) pairs whose very first evaluation in a process is raced by 16 threads in the `cold-start`
/// sub-check: anything initialised lazily on first use (tables, caches, once-cells) is exercised exactly there
pub fn cold_start_exprs() -> Vec<(Ev, &'static str)> {
    let mut v = Vec::new();
    for ev in Ev::ALL {
        let xs: Vec<&str> = match ev {
            Ev::I64 => vec!["20!", "19!/18!", "2^62", "gcd(12,18)", "lcm(4,6)", "sqrt(1000000)", "min(3,1,2)", "7%3", "1<<40", "med(5,1,4)"],
            Ev::Cpx => vec!["(1+2i)*(3-i)", "sqrt(-4)", "exp(i*pi)", "sin(1+i)", "ln(-1)", "i^i", "abs(3+4i)", "2^10"],
            Ev::Dec => vec!["20!", "0.5!", "w(1)", "exp(1)", "ln(2)", "sqrt(2)", "pi*e", "0.1+0.2", "med(5,1,4)", "27!/26!", "2^64"],
            _ => vec!["170!", "2*150!", "169!/168!", "20!", "0.5!", "(-1.5)!", "w(1)", "lambert_w(1000)", "sin(1)", "pi*e", "sqrt(2)", "2^0.5", "ln(2)", "med(5,1,4)", "100!/98!", "exp(1)", "atan2(1,2)", "ilog(100,10)"],
        };
        for x in xs {
            v.push((ev, x));
        }
    }
    v
}

fn parse_history(aux: &[String]) -> Vec<Key> {
    aux.iter()
        .filter_map(|l| {
            let mut it = l.splitn(3, '|');
            let ev = Ev::from_name(it.next()?)?;
            let ph = it.next()?.to_string();
            let ex = it.next()?.to_string();
            Some((ev, ph, ex))
        })
        .collect()
}

impl Prop for C16Prop {
    fn id(&self) -> &'static str {
        "C16"
    }
    fn rule(&self) -> String {
        "Cases are call histories: 200..1000 (quick) / up to 5000 (thorough) calls (evaluator, expression, placeholder) drawn from a per-history dictionary of 12..60 expressions (well-formed with and without @, error-producing, malformed for the parser and for the lexer (1.2.3, 1..5, stray characters), aggregates around failing arguments and around nested aggregates, whitespace of several kinds sprinkled into a third of the entries, non-ASCII spellings (π, ², ³) in a quarter, long aggregate lists with equal values in different spellings, one call in ten followed by a run of 3..7 different functions (W, factorial, exp, ln, sqrt, sin …) at the same or adjacent arguments in one evaluator, one call in six followed by a same-length sibling of its text (one character changed near the end) under the same placeholder, plus 1..3 argument sweeps: one function - Lambert W weighted - at 3..6 nearby arguments) so that keys repeat, each reused with changing placeholders and interleaved across all five evaluators; the whole history is one generated value (a choice sequence) and shrinks as one. Oracle (no-state model): every occurrence of a key must return, bit for bit, the outcome of its isolated first-time evaluation, computed by a fresh child process making exactly that one call. The history is run sequentially in-process, then replayed concurrently by 16 threads each starting at a different rotation, then every thread evaluates the deepest inputs 256 characters allow at the same time as the others (process-wide counters), then hammers one expression with different placeholders. One call in five is followed by an immediate repeat of the same expression with a placeholder pair that compares equal but differs (0.0/-0.0, 2/2.00, Integer 3/Float 3.0). Sub-check host-depth: the same call made from 0.5 … 6 MiB deeper in the caller's stack and back. Sub-check cold-start: a fresh child process starts 16 threads that make the same call as their very first one at the same moment (every lazily initialised table or cache is raced exactly once per process) and then the other cold-start expressions in rotated order; every outcome must be the isolated one. Sub-check after-failures: for every evaluator, every kind of failing call (lexer, parser, evaluation error under every operator and function form) is made 1100 times in a row and a set of plain expressions must then answer as in a fresh process. non-trivial = an occurrence whose expression occurred earlier in the history with a different placeholder or evaluator, or that directly follows an Err-producing call; distinct by (key, predecessor key). evaluations counts library calls (sequential + concurrent + child processes).".into()
    }
    fn assumptions(&self) -> Vec<String> {
        vec!["thread interleavings are whatever the OS produces under 16-way contention (not enumerated): the crate uses no synchronisation primitive a schedule explorer could intercept".into()]
    }
    fn subs(&self, tier: Tier) -> Vec<Sub> {
        let n: u64 = Ev::ALL.iter().map(|ev| (failing_templates(*ev).len() * probe_expressions(*ev).len()) as u64).sum();
        vec![
            Sub { name: "history", kind: SubKind::Random { cases: tier.pick(48, 1600), len: tier.pick(3000, 12000) as usize } },
            Sub { name: "after-failures", kind: SubKind::Enum { count: n } },
            Sub { name: "host-depth", kind: SubKind::Enum { count: 5 * 6 } },
            Sub { name: "cold-start", kind: SubKind::Enum { count: cold_start_exprs().len() as u64 * tier.pick(4, 40) } },
        ]
    }
    fn gen_enum(&self, sub: &str, mut idx: u64, _tier: Tier) -> Option<Case> {
        if sub == "host-depth" {
            // the caller's own stack depth is no input of the function: the same call from 0.5 … 6 MiB deeper in the host
            // stack (the shard threads have 16 MiB) must answer as in a fresh process
            let ev = Ev::ALL[(idx % 5) as usize];
            let mut case = Case::new(ev, ["2*(3+4)", "((1+2)*3)-4", "abs(-3)+2^3"][(idx / 5) as usize % 3].to_string(), Val::default_for(ev));
            case.aux = vec!["host-depth".into(), ["512", "1024", "2048", "3072", "4096", "6144"][(idx / 5) as usize % 6].to_string()];
            return Some(case);
        }
        if sub == "cold-start" {
            let xs = cold_start_exprs();
            let (ev, x) = xs[idx as usize % xs.len()];
            let mut case = Case::new(ev, x.to_string(), Val::default_for(ev));
            case.aux = vec!["cold-start".into(), (idx as usize / xs.len()).to_string()];
            return Some(case);
        }
        for ev in Ev::ALL {
            let (ts, ps) = (failing_templates(ev), probe_expressions(ev));
            let n = (ts.len() * ps.len()) as u64;
            if idx < n {
                let mut case = Case::new(ev, ps[idx as usize % ps.len()].to_string(), Val::default_for(ev));
                case.aux = vec!["after-failures".into(), ts[idx as usize / ps.len()].clone()];
                return Some(case);
            }
            idx -= n;
        }
        None
    }
    fn gen(&self, _sub: &str, c: &mut dyn Choices) -> Option<Case> {
        let nd = 12 + c.below(29) as usize;
        let dict = dictionary(c, nd);
        let n = 200 + c.below(801) as usize;
        let mut hist: Vec<String> = Vec::new();
        for _ in 0..n {
            let (ev, ex) = &dict[c.below(dict.len() as u32) as usize];
            // a small placeholder set per evaluator so that keys repeat
            let pool = ph_pool(*ev);
            let ph = &pool[(c.below(6) as usize * 5) % pool.len()];
            hist.push(format!("{}|{}|{}", ev.name(), ph.enc(), ex));
            if c.below(6) == 0 {
                // right away a sibling of the same text: same length, same beginning, one character changed near the end,
                // same placeholder (keys built from a prefix, a length or a weak hash of the text)
                let mut cs: Vec<char> = ex.chars().collect();
                if let Some(pos) = cs.iter().rposition(|ch| "0123456789+-*/".contains(*ch)) {
                    cs[pos] = match cs[pos] {
                        '+' => '-',
                        '-' => '+',
                        '*' => '/',
                        '/' => '*',
                        d => (((d as u8 - b'0') + 1) % 10 + b'0') as char,
                    };
                    let sib: String = cs.into_iter().collect();
                    hist.push(format!("{}|{}|{}", ev.name(), ph.enc(), sib));
                    hist.push(format!("{}|{}|{}", ev.name(), ph.enc(), ex));
                }
            }
            if c.below(10) == 0 {
                // a run of *different* functions at the same or adjacent arguments, back to back in one evaluator (memo slots
                // shared between functions, keyed by the argument only)
                let ev2 = [Ev::F64, Ev::Num, Ev::Dec, Ev::Cpx][c.below(4) as usize];
                let (lo, mid, hi) = [("1.5", "2.5", "3.5"), ("0.25", "1.25", "2.25"), ("-0.75", "0.25", "1.25"), ("0.5", "1.5", "2.5"), ("2", "3", "4"), ("6.25", "7.25", "8.25"), ("0.50", "1.50", "2.50")][c.below(7) as usize];
                let mut forms: Vec<String> = Vec::new();
                for a in [lo, mid, hi] {
                    let a = if a.starts_with('-') { format!("({})", a) } else { a.to_string() };
                    for f in ["w", "lambert_w", "exp", "ln", "sqrt", "sin", "cos", "abs", "exp2", "tan"] {
                        if vocab::func(ev2, f).is_some() {
                            forms.push(format!("{}({})", f, a));
                        }
                    }
                    if vocab::has_fact(ev2) {
                        forms.push(format!("{}!", a));
                    }
                }
                let ph2 = &ph_pool(ev2)[(c.below(6) as usize * 5) % ph_pool(ev2).len()];
                for _ in 0..(3 + c.below(5)) {
                    let f = &forms[c.below(forms.len() as u32) as usize];
                    hist.push(format!("{}|{}|{}", ev2.name(), ph2.enc(), f));
                }
            }
            if c.below(5) == 4 {
                // immediately the same expression again with a placeholder that compares equal but is another value
                // (other sign of zero, other scale, other variant): the classic way a memo keyed with == goes wrong
                let twins: Vec<(Val, Val)> = match ev {
                    Ev::F64 => vec![(Val::F(0.0), Val::F(-0.0)), (Val::F(-0.0), Val::F(0.0))],
                    Ev::Cpx => vec![(Val::C(0.0, 1.0), Val::C(-0.0, 1.0)), (Val::C(2.0, 0.0), Val::C(2.0, -0.0))],
                    Ev::Dec => vec![(Val::D(dec("2")), Val::D(dec("2.00"))), (Val::D(dec("0")), Val::D(dec("-0.0"))), (Val::D(dec("7.50")), Val::D(dec("7.5")))],
                    Ev::Num => vec![(Val::NF(0.0), Val::NF(-0.0)), (Val::NI(3), Val::NF(3.0)), (Val::NF(-0.0), Val::NI(0))],
                    Ev::I64 => vec![(Val::I(5), Val::I(-5))],
                };
                let (a, b) = &twins[c.below(twins.len() as u32) as usize];
                let b = if let (Ev::Dec, Val::D(d)) = (*ev, b) {
                    // "-0.0" parses as zero with the sign lost in text form: set it explicitly
                    let mut d = *d;
                    if d.is_zero() && b.enc().contains('-') {
                        d.set_sign_negative(true);
                    }
                    Val::D(d)
                } else {
                    b.clone()
                };
                hist.push(format!("{}|{}|{}", ev.name(), a.enc(), ex));
                hist.push(format!("{}|{}|{}", ev.name(), b.enc(), ex));
            }
        }
        let mut case = Case::new(Ev::F64, format!("history of {} calls over {} expressions", hist.len(), dict.len()), Val::F(0.0));
        case.aux = hist;
        Some(case)
    }
    fn check(&self, _sub: &str, case: &Case, sc: &mut ShardCtx) -> Result<(), Failure> {
        if case.aux.first().map(|s| s == "host-depth").unwrap_or(false) {
            #[inline(never)]
            fn deeper(levels: usize, key: &Key) -> String {
                let mut pad = [0u8; 64 * 1024];
                pad[levels % pad.len()] = levels as u8;
                let pad = std::hint::black_box(pad);
                let r = if levels == 0 { call(key) } else { deeper(levels - 1, key) };
                std::hint::black_box(pad[0]);
                r
            }
            let key: Key = (case.ev, case.ph.enc(), case.input.clone());
            let want = match isolated(&key) {
                Some(w) => w,
                None => return Ok(()),
            };
            let kib: usize = case.aux[1].parse().unwrap_or(512);
            let shallow = call(&key);
            let deep = deeper(kib / 64, &key);
            let again = call(&key);
            sc.evals(3);
            for (what, got) in [("at the shard's own depth", &shallow), ("from deeper in the host stack", &deep), ("back at the original depth", &again)] {
                if *got != want {
                    return Err(Failure::new(format!("history/host-depth/{}", case.ev.name()), format!("{} (isolated first-time evaluation)", want), format!("{} {} ({} KiB deeper)", got, what, kib)));
                }
            }
            sc.class("host-depth");
            sc.nontrivial(case.hash(), || serde_json::json!({"evaluator": case.ev.name(), "expression": case.input, "host_stack_offset_kib": kib, "outcome": deep}));
            return Ok(());
        }
        if case.aux.first().map(|s| s == "cold-start").unwrap_or(false) {
            // a fresh process in which 16 threads make this call as their very first one at the same moment, then all the
            // other cold-start expressions in rotated order; every outcome must be the isolated one
            let exe = match std::env::current_exe() {
                Ok(e) => e,
                Err(_) => return Ok(()),
            };
            let out = match std::process::Command::new(exe).args(["coldstart", case.ev.name(), &case.input]).output() {
                Ok(o) if o.status.success() => String::from_utf8_lossy(&o.stdout).to_string(),
                _ => {
                    return Err(Failure::new("history/cold-start/child-died", "a child process that prints its outcomes", "the child process did not finish normally"));
                }
            };
            let mut n = 0u64;
            for line in out.lines() {
                let mut it = line.splitn(4, '\t');
                let (t, evn, ex, got) = match (it.next(), it.next(), it.next(), it.next()) {
                    (Some(a), Some(b), Some(c), Some(d)) => (a, b, c, d),
                    _ => continue,
                };
                let ev = match Ev::from_name(evn) {
                    Some(e) => e,
                    None => continue,
                };
                n += 1;
                let key: Key = (ev, Val::default_for(ev).enc(), ex.to_string());
                if let Some(want) = isolated(&key) {
                    if want != got {
                        return Err(Failure::new(format!("history/cold-start/{}", evn), format!("{} (isolated first-time evaluation of {:?})", want, ex), format!("{} on thread {} of a fresh process whose 16 threads started with {:?}", got, t, case.input)));
                    }
                }
            }
            sc.evals(n);
            sc.class("cold-start");
            sc.nontrivial(case.hash(), || serde_json::json!({"evaluator": case.ev.name(), "first_call_of_16_threads": case.input, "outcomes_compared": n}));
            return Ok(());
        }
        if case.aux.first().map(|s| s == "after-failures").unwrap_or(false) {
            // 1100 failing calls of one kind, then a plain call: it must answer as in a fresh process
            let key: Key = (case.ev, case.ph.enc(), case.input.clone());
            let want = match isolated(&key) {
                Some(w) => w,
                None => return Ok(()),
            };
            exhaust(sc, case.ev, &case.aux[1], &case.ph);
            let got = call(&key);
            sc.evals(1);
            if got != want {
                return Err(Failure::new(format!("history/after-failures/{}", case.ev.name()), format!("{} (isolated first-time evaluation)", want), format!("{} after {} consecutive calls of {:?}", got, EXHAUST_CALLS, case.aux[1])));
            }
            sc.class("after-failures");
            sc.nontrivial(case.hash(), || serde_json::json!({"evaluator": case.ev.name(), "failing_call": case.aux[1], "then": case.input, "outcome": got}));
            return Ok(());
        }
        let hist = parse_history(&case.aux);
        if hist.is_empty() {
            return Ok(());
        }
        // baselines
        let mut base: HashMap<&Key, String> = HashMap::new();
        for k in &hist {
            if !base.contains_key(k) {
                match isolated(k) {
                    Some(b) => {
                        sc.evals(1);
                        base.insert(k, b);
                    }
                    None => {
                        sc.exclude("child process failed (panic/abort is C01's)");
                        return Ok(());
                    }
                }
            }
        }
        // sequential replay, invariant after every step
        let mut seen_expr: HashMap<&str, (Ev, &str)> = HashMap::new();
        let mut prev: Option<&Key> = None;
        let mut prev_err = false;
        for (i, k) in hist.iter().enumerate() {
            let got = call(k);
            sc.evals(1);
            let want = &base[k];
            if got.starts_with("panic") || got.starts_with("budget") {
                prev = Some(k);
                continue;
            }
            if &got != want {
                return Err(Failure::new(
                    format!("history/sequential/{}", k.0.name()),
                    format!("{} (isolated first-time evaluation of {} {:?} placeholder {})", want, k.0.name(), k.2, k.1),
                    format!("{} at step {} (previous call: {:?})", got, i, prev),
                ));
            }
            let nt = match seen_expr.get(k.2.as_str()) {
                Some((e, p)) => *e != k.0 || *p != k.1.as_str(),
                None => false,
            } || prev_err;
            if nt {
                let h = crate::util::mix(crate::util::fnv(format!("{:?}", k).as_bytes()), crate::util::fnv(format!("{:?}", prev).as_bytes()));
                sc.nontrivial(h, || serde_json::json!({"call": format!("{} {:?} placeholder {}", k.0.name(), k.2, k.1), "previous": prev.map(|p| format!("{} {:?} placeholder {}", p.0.name(), p.2, p.1)), "outcome": got}));
            }
            seen_expr.insert(k.2.as_str(), (k.0, k.1.as_str()));
            prev_err = got == "err";
            prev = Some(k);
        }
        // concurrent replay: 16 threads, rotated starts
        let bad: Mutex<Option<(usize, String, String)>> = Mutex::new(None);
        let calls = std::sync::atomic::AtomicU64::new(0);
        std::thread::scope(|s| {
            for t in 0..16usize {
                let hist = &hist;
                let base = &base;
                let bad = &bad;
                let calls = &calls;
                s.spawn(move || {
                    api::install_hook();
                    let n = hist.len();
                    for j in 0..n {
                        let k = &hist[(j + t * n / 16) % n];
                        let got = call(k);
                        calls.fetch_add(1, std::sync::atomic::Ordering::Relaxed);
                        if !(got.starts_with("panic") || got.starts_with("budget")) && &got != &base[k] {
                            *bad.lock().unwrap() = Some((t, format!("{} {:?} placeholder {}", k.0.name(), k.2, k.1), format!("{} instead of {}", got, base[k])));
                            return;
                        }
                    }
                    // all threads deep inside the parser / evaluator at the same time (process-wide counters, shared
                    // scratch buffers): the deepest inputs 256 characters allow, compared with their sequential outcome
                    for (dev, deep) in [(Ev::F64, format!("{}1", "-".repeat(250))), (Ev::Num, format!("{}7{}", "(".repeat(120), ")".repeat(120))), (Ev::Dec, format!("1{}", "+1".repeat(120))), (Ev::I64, format!("{}1{}", "abs(".repeat(50), ")".repeat(50)))] {
                        let key: Key = (dev, Val::default_for(dev).enc(), deep);
                        let want = match dev {
                            Ev::F64 => "ok f64:0x3ff0000000000000".to_string(),
                            Ev::Num => "ok numi:7".to_string(),
                            Ev::Dec => "ok dec:121".to_string(),
                            _ => "ok i64:1".to_string(),
                        };
                        for _ in 0..20 {
                            let got = call(&key);
                            calls.fetch_add(1, std::sync::atomic::Ordering::Relaxed);
                            if got != want && !(got.starts_with("panic") || got.starts_with("budget")) {
                                *bad.lock().unwrap() = Some((t, format!("{} {:?}", key.0.name(), key.2), format!("{} instead of {} while 15 other threads evaluate deep inputs", got, want)));
                                return;
                            }
                        }
                    }
                    // hammer one expression with this thread's own placeholder
                    let k0 = &hist[0];
                    let pool = ph_pool(k0.0);
                    let ph = &pool[t % pool.len()];
                    let key: Key = (k0.0, ph.enc(), k0.2.clone());
                    let first = call(&key);
                    for _ in 0..200 {
                        let again = call(&key);
                        calls.fetch_add(1, std::sync::atomic::Ordering::Relaxed);
                        if again != first && !(again.starts_with("panic") || again.starts_with("budget")) {
                            *bad.lock().unwrap() = Some((t, format!("{} {:?} placeholder {}", key.0.name(), key.2, key.1), format!("{} then {}", first, again)));
                            return;
                        }
                    }
                });
            }
        });
        sc.evals(calls.load(std::sync::atomic::Ordering::Relaxed));
        if let Some((t, what, how)) = bad.into_inner().unwrap() {
            return Err(Failure::new("history/concurrent", format!("the isolated outcome for {}", what), format!("thread {}: {}", t, how)));
        }
        sc.class("history passed (sequential + 16 threads)");
        let _ = Outcome::Err;
        Ok(())
    }
}
