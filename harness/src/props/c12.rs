//! C12 — "A number literal, a bracketed group ( ) ⌊ ⌋ ⌈ ⌉, a function call or a factorial that is
//! immediately followed by `(`, `⌊`, `⌈` or a function name (or, after a group, call or factorial, by a
//! number literal) denotes their product: `A B` evaluates exactly as `(A*(R))` where R is B together
//! with any ^, superscript and ! suffixes that follow it. The product binds tighter than every explicit
//! operator on its left (6/2(3) = 1, 2^3(4) = 2^12, -2(3)! = -12), and constants, `@`, superscripts, °
//! and rad neither start nor continue an implicit product - such input is rejected."

use super::common::*;
use crate::api::{Ev, Val};
use crate::choice::Choices;
use crate::gen::{self, Profile};
use crate::grammar::{self, BinOp, E};
use crate::refeval;
use crate::run::{Case, Failure, Prop, ShardCtx, Sub, SubKind, Tier};
use crate::vocab;
use std::sync::OnceLock;

pub struct C12Prop;
pub static C12: C12Prop = C12Prop;

/// Render with juxtaposition nodes written `(A*(R))`; `only` = rewrite just the k-th Juxt (pre-order).
pub fn render_explicit(e: &E, only: Option<usize>) -> String {
    fn go(e: &E, only: Option<usize>, k: &mut usize, s: &mut String) {
        match e {
            E::Juxt(a, r) => {
                let me = *k;
                *k += 1;
                if only.map(|o| o == me).unwrap_or(true) {
                    s.push('(');
                    go(a, only, k, s);
                    s.push_str("*(");
                    go(r, only, k, s);
                    s.push_str("))");
                } else {
                    go(a, only, k, s);
                    go(r, only, k, s);
                }
            }
            E::Lit(t) => s.push_str(t),
            E::Const(c) => s.push_str(c),
            E::Ans => s.push('@'),
            E::Neg(a) => {
                s.push('-');
                go(a, only, k, s)
            }
            E::Pos(a) => {
                s.push('+');
                go(a, only, k, s)
            }
            E::Bin(op, a, b) => {
                go(a, only, k, s);
                s.push_str(op.text());
                go(b, only, k, s)
            }
            E::Sup(a, d) => {
                go(a, only, k, s);
                s.push_str(&vocab::ascii_to_sup(d))
            }
            E::Fact(a) => {
                go(a, only, k, s);
                s.push('!')
            }
            E::Deg(a) => {
                go(a, only, k, s);
                s.push('°')
            }
            E::Rad(a) => {
                go(a, only, k, s);
                s.push_str("rad")
            }
            E::Group(br, a) => {
                s.push_str(br.open());
                go(a, only, k, s);
                s.push_str(br.close())
            }
            E::Call(n, args) => {
                s.push_str(n);
                s.push('(');
                for (i, a) in args.iter().enumerate() {
                    if i > 0 {
                        s.push(',');
                    }
                    go(a, only, k, s);
                }
                s.push(')')
            }
        }
    }
    let mut s = String::new();
    let mut k = 0;
    go(e, only, &mut k, &mut s);
    s
}

fn count_juxt(e: &E) -> usize {
    let mut n = 0;
    grammar::walk(e, &mut |x| {
        if matches!(x, E::Juxt(_, _)) {
            n += 1
        }
    });
    n
}

/// a looser binding of some product would change the grouping: the product is an operand of an operator of
/// multiplicative or tighter level / a prefix sign, or its right factor carries a suffix
fn binding_matters(e: &E) -> bool {
    let mut yes = false;
    fn is_j(e: &E) -> bool {
        matches!(e, E::Juxt(_, _))
    }
    grammar::walk(e, &mut |n| match n {
        E::Bin(op, a, b) if op.level() >= 4 && (is_j(a) || is_j(b)) => yes = true,
        E::Neg(a) | E::Pos(a) if is_j(a) => yes = true,
        E::Juxt(_, r) if matches!(**r, E::Bin(BinOp::Pow, _, _) | E::Sup(_, _) | E::Fact(_) | E::Juxt(_, _)) => yes = true,
        _ => {}
    });
    yes
}

fn short_forms() -> &'static Vec<(Ev, String)> {
    static CELL: OnceLock<Vec<(Ev, String)>> = OnceLock::new();
    CELL.get_or_init(|| {
        let mut out = Vec::new();
        for ev in Ev::ALL {
            let mut left: Vec<&str> = vec!["", "6/", "2*", "2+", "1-", "2^", "-", "+", "(", "2-3*"];
            if ev != Ev::Cpx {
                left.push("7%");
            }
            if ev == Ev::I64 {
                left.extend(["3&", "1|", "1<<", "64>>"]);
            }
            let mut a: Vec<&str> = vec!["2", "(3)", "abs(-2)", "(1+1)"];
            if vocab::has_floor_brackets(ev) {
                a.extend(["⌊2.5⌋", "⌈2.5⌉"]);
            }
            if vocab::has_fact(ev) {
                a.push("3!");
            }
            if ev != Ev::Cpx && ev != Ev::I64 {
                a.push("min(2,3)");
            }
            if ev != Ev::Cpx {
                // the zero-argument call is a call like any other
                a.push("avg()");
                a.push("avg(4)");
            }
            if ev == Ev::Cpx {
                a.push("(1+2i)");
                // the bare unit and an imaginary literal as left factors (i sin(1), 2i(3))
                a.push("i");
                a.push("2i");
            }
            // bracketed negations as left factors and right factors at the edge of the type: (-c)(R) is (-c)*R, which is
            // not -(c*R) when c*R leaves the range (or the type) and the negation brings it back
            match ev {
                Ev::I64 => a.extend(["(-2)", "(-@)", "(-8)"]),
                Ev::Num => a.extend(["(-2)", "(-@)", "(-0.5)"]),
                Ev::Cpx => a.extend(["(-2)", "(-i)"]),
                _ => a.extend(["(-2)", "(-@)"]),
            }
            let mut b: Vec<&str> = vec!["(3)", "(1+2)", "abs(-3)", "sqrt(4)"];
            match ev {
                Ev::I64 | Ev::Num => b.extend(["(4611686018427387904)", "(0)", "(@)"]),
                Ev::Dec => b.extend(["(39614081257132168796771975168)", "(0)"]),
                Ev::F64 => {
                    a.extend(["6.022", "5"]);
                    b.extend(["(0)", "(@)", "(10^23)", "(10)", "(10^25)", "(10²⁴)"]);
                }
                Ev::Cpx => b.extend(["exp(710)", "sinh(800)", "(exp(710))", "exp(710i)"]),
            }
            if vocab::has_floor_brackets(ev) {
                b.extend(["⌊3.5⌋", "⌈2.5⌉"]);
            }
            let mut suffix: Vec<&str> = vec!["", "^2", "²", "^24", "²⁴"];
            if vocab::has_fact(ev) {
                suffix.extend(["!", "!^2", "^2!", "²!"]);
            }
            let mut right: Vec<&str> = vec!["", "*2", "+1", "^2", ")", "(2)"];
            if vocab::has_fact(ev) {
                right.push("!");
            }
            if vocab::has_deg(ev) {
                right.push("°");
            }
            // three-factor chains: every kind of factor in every position (a look-ahead that decides from the token
            // after the second factor has to know every way a third factor can start)
            let mut cs: Vec<&str> = b.clone();
            cs.push("5");
            for l in ["", "6/", "-", "2^", "7-"] {
                for x in &a {
                    for y in &b {
                        for z in &cs {
                            for s in ["", "²", "^2"] {
                                if *z == "5" && (y.ends_with(|c: char| c.is_ascii_digit())) {
                                    continue;
                                }
                                out.push((ev, format!("{}{}{}{}{}", l, x, y, z, s)));
                            }
                        }
                        // literal second factor, bracketed third
                        if *x != "2" && *x != "2i" {
                            for z in &b {
                                out.push((ev, format!("{}3{}", x, z)));
                            }
                        }
                    }
                }
            }
            for l in &left {
                for x in &a {
                    for y in &b {
                        for s in &suffix {
                            for r in &right {
                                // balance the optional opening bracket
                                if (*l == "(") != (*r == ")") {
                                    continue;
                                }
                                out.push((ev, format!("{}{}{}{}{}", l, x, y, s, r)));
                                // literal right factor after a non-literal A
                                if *x != "2" && y == &"(3)" {
                                    out.push((ev, format!("{}{}3{}{}", l, x, s, r)));
                                }
                            }
                        }
                    }
                }
            }
        }
        out
    })
}

/// inputs that must be rejected: constants, @, superscripts, ° and rad neither start nor continue a product
fn rejection_block() -> &'static Vec<(Ev, String)> {
    static CELL: OnceLock<Vec<(Ev, String)>> = OnceLock::new();
    CELL.get_or_init(|| {
        let mut out = Vec::new();
        for ev in Ev::ALL {
            let mut ks: Vec<&str> = vec!["@"];
            ks.extend(vocab::consts(ev).iter());
            let mut forms: Vec<String> = Vec::new();
            for k in &ks {
                for pat in ["K(2)", "Kabs(2)", "K2", "2K", "(2)K", "abs(2)K", "KK", "K(2)(3)", "2(3)K", "K@", "@K"] {
                    forms.push(pat.replace('K', k));
                }
                if vocab::has_floor_brackets(ev) {
                    forms.push(format!("{}⌊2⌋", k));
                    forms.push(format!("⌈2⌉{}", k));
                }
                if vocab::has_fact(ev) {
                    forms.push(format!("3!{}", k));
                }
            }
            forms.extend(["2²(3)", "2²3", "2²abs(3)", "(2)²(3)", "²(3)", "2(²)"].iter().map(|s| s.to_string()));
            if vocab::has_deg(ev) {
                forms.extend(["2°(3)", "2rad(3)", "2°3", "2°abs(3)", "2rad3", "°(3)", "rad(3)", "2°pi", "(2)°(3)"].iter().map(|s| s.to_string()));
            }
            // the same shapes with every kind of factor in front: every function name and alias as a call, each bracket
            // kind, a literal, a factorial (a parser that runs its product hook once more after some call forms lets a
            // superscript, a constant or @ continue the product there and nowhere else)
            let mut atoms: Vec<String> = vec!["2".into(), "(2)".into(), "2.5".into()];
            if vocab::has_floor_brackets(ev) {
                atoms.push("⌊2⌋".into());
                atoms.push("⌈2⌉".into());
            }
            if vocab::has_fact(ev) {
                atoms.push("3!".into());
                atoms.push("(3)!".into());
            }
            for f in vocab::funcs(ev) {
                atoms.push(match f.arity {
                    vocab::Arity::Two => format!("{}(2,3)", f.name),
                    vocab::Arity::Var0 => format!("{}()", f.name),
                    _ => format!("{}(2)", f.name),
                });
                if matches!(f.arity, vocab::Arity::Var0 | vocab::Arity::Var1) {
                    atoms.push(format!("{}(2,3,4)", f.name));
                }
            }
            for x in &atoms {
                for k in &ks {
                    for pat in ["KX", "XK", "X(3)K", "KX(3)", "X(3)^K(4)", "XK(3)"] {
                        forms.push(pat.replace('X', x).replace('K', k));
                    }
                }
                for pat in ["X²(3)", "X²3", "X(3)²(4)", "X(3)²4", "X3²4", "(3)X²(4)", "X²abs(3)", "X(3)²X"] {
                    forms.push(pat.replace('X', x));
                }
                if vocab::has_deg(ev) {
                    for pat in ["X°(3)", "X(3)°(4)", "Xrad(3)", "X(3)rad(4)", "X°3", "X(3)°X"] {
                        forms.push(pat.replace('X', x));
                    }
                }
            }
            let mut all: Vec<String> = Vec::new();
            for f in forms {
                all.push(f.clone());
                all.push(format!("({})", f));
                all.push(format!("1+{}", f));
                all.push(format!("{}*2", f));
                all.push(format!("abs({})", f));
                all.push(format!("pow(2,{})", f));
                if ev != Ev::Cpx {
                    all.push(format!("max(1,{})", f));
                    all.push(format!("med(1,{},3)", f));
                }
                all.push(format!("-{}", f));
            }
            for s in all {
                out.push((ev, s));
            }
        }
        out
    })
}

pub fn profile(ev: Ev) -> Profile {
    let mut p = Profile::full(ev);
    p.lits = match ev {
        Ev::I64 => vec!["2", "3", "5", "7", "1", "4"],
        Ev::Cpx => vec!["2", "3", "0.5", "2i", "7", "1.5"],
        _ => vec!["2", "3", "0.5", "7", "1.5", "4"],
    }
    .into_iter()
    .map(|s| s.to_string())
    .collect();
    p.funcs.retain(|f| !["w", "ilog"].contains(&f.canon));
    p.max_depth = 5;
    p
}

impl Prop for C12Prop {
    fn id(&self) -> &'static str {
        "C12"
    }
    fn rule(&self) -> String {
        "Exhaustive short forms: left context {ε, 6/, 7%, 2*, 2+, 1-, 2^, -, +, (, 3&, 1|, 1<<, …} x A {literal, ( ), ⌊ ⌋, ⌈ ⌉, call, factorial} x B {( ), ⌊ ⌋, ⌈ ⌉, call, literal after a non-literal A} x suffix {ε, ^2, ², !, !^2, ^2!, ²!} x right context {ε, *2, +1, ^2, !, °, (2)} per evaluator; three-factor chains with every kind of factor in every position; juxtaposition chains of 2..512 factors and sums of 2..512 implicit products; random trees (depth <=5) with juxtaposition nodes in every context; rejection block: every constant, @, superscript, ° and rad placed so that it would have to start or continue a product, alone and embedded, and the same shapes behind every kind of left factor (every function name and alias as a call, every bracket kind, literal, factorial). Oracles: (a) each juxtaposition A R of the reference parse rewritten to (A*(R)) - all at once and one at a time - must give the same outcome bit for bit; (b) exact reference evaluation of the reference parse; (c) rejection block must be Err. non-trivial = a product that is an operand of an operator of multiplicative or tighter level or of a prefix sign, or whose right factor carries a suffix; rejection cases are counted separately (class rejection-block) and included in distinct.".into()
    }
    fn subs(&self, tier: Tier) -> Vec<Sub> {
        vec![
            Sub { name: "short", kind: SubKind::Enum { count: short_forms().len() as u64 } },
            Sub { name: "reject", kind: SubKind::Enum { count: rejection_block().len() as u64 } },
            Sub { name: "long", kind: SubKind::Enum { count: super::long::all(true).iter().filter(|x| x.1.contains(")(") || x.1.contains("2(3)")).count() as u64 } },
            Sub { name: "tree", kind: SubKind::Random { cases: tier.pick(500_000, 20_000_000), len: 160 } },
        ]
    }
    fn gen_enum(&self, sub: &str, idx: u64, _tier: Tier) -> Option<Case> {
        let (ev, s) = match sub {
            "long" => super::long::all(true).iter().filter(|x| x.1.contains(")(") || x.1.contains("2(3)")).nth(idx as usize)?.clone(),
            "short" => short_forms().get(idx as usize)?.clone(),
            _ => rejection_block().get(idx as usize)?.clone(),
        };
        let pool = ph_pool(ev);
        let ph = if s.contains('@') { pool[idx as usize % pool.len()].clone() } else { pool[3 % pool.len()].clone() };
        Some(Case::new(ev, s, ph))
    }
    fn gen(&self, _sub: &str, c: &mut dyn Choices) -> Option<Case> {
        let ev = Ev::ALL[c.below(5) as usize];
        let p = profile(ev);
        let ph = pick_ph(ev, c);
        // force at least one juxtaposition: build a context around a juxtaposition node
        let j = gen::gen_juxt(&p, c, 3);
        let e = match c.below(8) {
            0 => j,
            1 => gen::mk_bin(*gen::pick(c, &p.ops), gen::gen_expr(&p, c, 2), j),
            2 => gen::mk_bin(*gen::pick(c, &p.ops), j, gen::gen_expr(&p, c, 2)),
            3 => gen::mk_neg(j),
            4 => gen::mk_bin(BinOp::Pow, gen::gen_leaf(&p, c), j),
            5 => gen::mk_bin(BinOp::Div, gen::gen_leaf(&p, c), j),
            6 => E::Call("abs", vec![j]),
            _ => {
                let inner = gen::mk_bin(*gen::pick(c, &p.ops), gen::gen_leaf(&p, c), j);
                gen::mk_bin(*gen::pick(c, &p.ops), inner, gen::gen_expr(&p, c, 2))
            }
        };
        let s = grammar::render(&e);
        if char_len(&s) > 256 {
            return None;
        }
        Some(Case::new(ev, s, ph))
    }
    fn check(&self, sub: &str, case: &Case, sc: &mut ShardCtx) -> Result<(), Failure> {
        let ev = case.ev;
        if sub == "reject" {
            let o = match eval_normal(sc, ev, &case.input, &case.ph) {
                Some(o) => o,
                None => return Ok(()),
            };
            // the block is only meaningful if the reference also rejects it (it is written to be so)
            match grammar::recognise(ev, &case.input) {
                grammar::Verdict::Reject => {}
                _ => {
                    sc.exclude("rejection form accepted by the reference (not a rejection case)");
                    return Ok(());
                }
            }
            sc.class("rejection-block");
            if o.is_ok() {
                return Err(Failure::new(format!("{}/implicit-product-accepted", ev.name()), "Err (constants, @, superscripts, ° and rad take no part in implicit multiplication)", o.show()));
            }
            sc.nontrivial(case.hash(), || sample(case, &o.show()));
            return Ok(());
        }
        let e = match accept(ev, &case.input) {
            Some(e) => e,
            None => {
                sc.exclude("not accepted by the reference parser");
                return Ok(());
            }
        };
        let nj = count_juxt(&e);
        if nj == 0 {
            sc.exclude("no juxtaposition in the reference parse");
            return Ok(());
        }
        let o = match eval_normal(sc, ev, &case.input, &case.ph) {
            Some(o) => o,
            None => return Ok(()),
        };
        // (a) string rewrite
        let mut variants = vec![render_explicit(&e, None)];
        if nj > 1 {
            for k in 0..nj.min(3) {
                variants.push(render_explicit(&e, Some(k)));
            }
        }
        for v in variants {
            if let Some(o2) = eval_normal(sc, ev, &v, &case.ph) {
                if !o.same(&o2) {
                    return Err(Failure::new(format!("{}/juxtaposition-rewrite", ev.name()), format!("same outcome as {:?}: {}", v, o2.show()), o.show()));
                }
            }
        }
        sc.class("(a) explicit-product rewrite agrees");
        // (b) reference evaluation
        match refeval::exact_agrees(ev, &e, &case.ph, &o) {
            Some((false, want)) => {
                return Err(Failure::new(format!("{}/juxtaposition-value", ev.name()), want, o.show()).detail(format!("reference tree: {}", grammar::render_full(&e))));
            }
            Some((true, _)) => sc.class("(b) reference value agrees"),
            None => sc.class("(b) no exact reference"),
        }
        if binding_matters(&e) {
            sc.nontrivial(case.hash(), || sample(case, &o.show()));
        }
        let _ = Val::I(0);
        Ok(())
    }
}
