pub mod common;
pub mod long;
pub mod c01;
pub mod c02;
pub mod c03;
pub mod c04;
pub mod c05;
pub mod c06;
pub mod c07;
pub mod c08;
pub mod c09;
pub mod c10;
pub mod c11;
pub mod c18;
pub mod c19;
pub mod c12;
pub mod c13;
pub mod c14;
pub mod c15;
pub mod c16;
pub mod c20;

use crate::run::Prop;

pub fn by_id(id: &str) -> Option<&'static dyn Prop> {
    Some(match id {
        "C01" => &c01::C01,
        "C02" => &c02::C02,
        "C03" => &c03::C03,
        "C04" => &c04::C04,
        "C05" => &c05::C05,
        "C06" => &c06::C06,
        "C07" => &c07::C07,
        "C08" => &c08::C08,
        "C09" => &c09::C09,
        "C10" => &c10::C10,
        "C11" => &c11::C11,
        "C18" => &c18::C18,
        "C19" => &c19::C19,
        "C12" => &c12::C12,
        "C13" => &c13::C13,
        "C14" => &c14::C14,
        "C15" => &c15::C15,
        "C16" => &c16::C16,
        "C20" => &c20::C20,
        _ => return None,
    })
}

pub fn selftest() {
    common::selftest();
    crate::big::selftest();
    c19::selftest();
}
