pub mod common;
pub mod c01;
pub mod c02;

use crate::run::Prop;

pub fn by_id(id: &str) -> Option<&'static dyn Prop> {
    Some(match id {
        "C01" => &c01::C01,
        "C02" => &c02::C02,
        _ => return None,
    })
}

pub fn selftest() {
    common::selftest();
}
