//! C01 — "For every input string of at most 256 characters and every placeholder value … each
//! return Ok(value) or Err(ParseError); none of them panics or aborts the process. This holds both
//! in builds with integer-overflow checks (debug) and without them (release)."
//!
//! Oracle: the call returns. A hook budget hit is C02's business (excluded, counted).

use super::common::*;
use crate::api::{Ev, Outcome, Val};
use crate::choice::Choices;
use crate::gen::{self, Profile};
use crate::grammar;
use crate::lex;
use crate::run::{Case, Failure, Prop, ShardCtx, Sub, SubKind, Tier};
use crate::vocab;
use std::sync::OnceLock;

pub struct C01Prop;
pub static C01: C01Prop = C01Prop;

/// Complete piece vocabulary of an evaluator: every token spelling, a literal pool, foreign fragments.
pub fn full_pieces(ev: Ev) -> &'static Vec<String> {
    static CELLS: [OnceLock<Vec<String>>; 5] = [OnceLock::new(), OnceLock::new(), OnceLock::new(), OnceLock::new(), OnceLock::new()];
    CELLS[ev.idx()].get_or_init(|| {
        let mut v: Vec<String> = Vec::new();
        for t in gen::vocab_tokens(ev) {
            match t {
                lex::Tok::Func(n) => v.push(format!("{}(", n)),
                lex::Tok::Num(_) | lex::Tok::Sup(_) => {}
                t => v.push(t.text()),
            }
        }
        for s in [
            "0", "1", "2", "0.5", ".5", "1.", "1.2.3", "1..2", "007", "9223372036854775807", "9223372036854775808", "99999999999999999999", "79228162514264337593543950335",
            "792281625142643375935439503350", "²", "⁰", "⁹⁹⁹⁹⁹⁹⁹⁹⁹⁹⁹⁹⁹⁹⁹⁹⁹⁹⁹⁹", "170", "21", "64",
        ] {
            v.push(s.to_string());
        }
        v.push("9".repeat(400));
        // literals with 33, 40 and 100 fractional digits (buffers and caps on the fraction): followed by another piece
        // such as ".5" or "1.2.3" they must still be rejected
        for n in [32usize, 33, 40, 100] {
            v.push(format!("1.{}", "0".repeat(n)));
            v.push(format!("3.{}", "1415926535".repeat(n / 10 + 1)[..n].to_string()));
        }
        if ev == Ev::Cpx {
            v.push("2i".into());
            v.push("i".into());
        }
        for s in ["<", ">", "=", "x", ".", "é", "\u{1F600}", "\u{feff}", "\u{200b}", "\u{ad}", "\u{2060}", "\u{200e}", "\u{0}"] {
            v.push(s.to_string());
        }
        // code points next to the non-ASCII characters of the vocabulary (a range test or an offset computation that is
        // one too wide accepts ⁱ U+2071 as a superscript digit, ± as °, ρ as π ...)
        let mut special: Vec<char> = "²³¹⁰⁴⁵⁶⁷⁸⁹°π⌊⌋⌈⌉".chars().collect();
        special.sort();
        for c in special.clone() {
            for d in [-2i32, -1, 1, 2] {
                if let Some(n) = char::from_u32((c as i32 + d) as u32) {
                    if !special.contains(&n) && !n.is_ascii() && !v.contains(&n.to_string()) {
                        v.push(n.to_string());
                    }
                }
            }
        }
        // names found in /repo's tokenizers that this harness does not know (./check extracts them, like a fuzzing
        // dictionary): new vocabulary is reachable by no amount of short-string enumeration
        for k in extra_keywords() {
            let piece = format!("{}(", k);
            if !v.contains(&piece) {
                v.push(piece);
            }
        }
        for f in gen::foreign_fragments(ev).into_iter().take(12) {
            if !v.contains(&f) {
                v.push(f);
            }
        }
        v
    })
}

/// One representative per token class.
pub fn class_reps(ev: Ev) -> &'static Vec<String> {
    static CELLS: [OnceLock<Vec<String>>; 5] = [OnceLock::new(), OnceLock::new(), OnceLock::new(), OnceLock::new(), OnceLock::new()];
    CELLS[ev.idx()].get_or_init(|| {
        let mut v: Vec<&str> = vec!["+", "-", "*", "/", "^", "(", ")", ",", "@", "2", "²", "abs(", "pow(", "x"];
        match ev {
            Ev::I64 => v.extend(["%", "!", "&", "<<", "min(", "gcd(", "9223372036854775807", "64", "<", ">"]),
            Ev::Cpx => v.extend(["°", "rad", "pi", "e", "i", "2i", "0.5", "sin("]),
            Ev::Dec => v.extend(["%", "!", "pi", "e", "⌊", "⌋", "min(", "avg(", "0.5", "w(", "ilog(", "28"]),
            _ => v.extend(["%", "!", "°", "rad", "pi", "e", "⌊", "⌋", "⌈", "⌉", "min(", "avg(", "0.5", "w(", "ilog(", "171"]),
        }
        v.into_iter().map(|s| s.to_string()).collect()
    })
}

pub fn char_alphabet() -> &'static Vec<char> {
    static CELL: OnceLock<Vec<char>> = OnceLock::new();
    CELL.get_or_init(|| {
        let mut v: Vec<char> = Vec::new();
        for n in vocab::all_func_names() {
            for c in n.chars() {
                if !v.contains(&c) {
                    v.push(c);
                }
            }
        }
        for c in "pirade0129.(),@!^%*/+-<>&|°π⌊⌋⌈⌉²⁹".chars() {
            if !v.contains(&c) {
                v.push(c);
            }
        }
        v
    })
}

/// sum_{l=1..=maxlen} n^l
fn seq_space(n: u64, maxlen: u32) -> u64 {
    (1..=maxlen).map(|l| n.pow(l)).sum()
}

/// decode index into a sequence over 0..n of length 1..=maxlen
fn seq_decode(mut idx: u64, n: u64, maxlen: u32) -> Vec<usize> {
    for l in 1..=maxlen {
        let sp = n.pow(l);
        if idx < sp {
            let mut v = Vec::with_capacity(l as usize);
            for _ in 0..l {
                v.push((idx % n) as usize);
                idx /= n;
            }
            return v;
        }
        idx -= sp;
    }
    Vec::new()
}

/// Keywords that ./check found in /repo/src/*/tokenizer.rs and that are not part of the known vocabulary
/// (SCVERIF_EXTRA_KEYWORDS, comma separated).
pub fn extra_keywords() -> Vec<String> {
    std::env::var("SCVERIF_EXTRA_KEYWORDS").ok().map(|s| s.split(',').filter(|w| !w.is_empty()).map(|w| w.to_string()).collect()).unwrap_or_default()
}

/// Every function name (of any evaluator) called with 0..4 arguments drawn from a list of sizes that matter for
/// integer products and exponents: the arity a name is documented with is not the only one a parser may accept.
fn arity_cases() -> &'static Vec<String> {
    static CELL: OnceLock<Vec<String>> = OnceLock::new();
    CELL.get_or_init(|| {
        let args = ["@", "2", "9000000000", "4000000007", "65", "0", "200", "0.5", "(0/0)", "(0-7)"];
        let mut v = Vec::new();
        let mut names: Vec<String> = vocab::all_func_names().iter().map(|s| s.to_string()).collect();
        names.extend(extra_keywords());
        for f in &names {
            v.push(format!("{}()", f));
            for a in args {
                v.push(format!("{}({})", f, a));
                for b in args {
                    v.push(format!("{}({},{})", f, a, b));
                    for c in args {
                        v.push(format!("{}({},{},{})", f, a, b, c));
                    }
                }
            }
            for quad in [["@", "@", "@", "@"], ["3", "200", "10000000019", "2"], ["@", "2", "9000000000", "7"], ["7", "65", "4294967296", "@"]] {
                v.push(format!("{}({})", f, quad.join(",")));
            }
        }
        v
    })
}

/// The keyword neighbourhood: every keyword with prefixes, one char deleted / substituted, with call suffixes.
fn keyword_neighbourhood() -> &'static Vec<String> {
    static CELL: OnceLock<Vec<String>> = OnceLock::new();
    CELL.get_or_init(|| {
        let mut kws: Vec<String> = vocab::all_func_names().iter().map(|s| s.to_string()).collect();
        kws.extend(["pi", "rad", "e", "π", "i"].iter().map(|s| s.to_string()));
        let alpha = char_alphabet();
        let mut bases: Vec<String> = Vec::new();
        for k in &kws {
            let cs: Vec<char> = k.chars().collect();
            bases.push(k.clone());
            for i in 1..cs.len() {
                bases.push(cs[..i].iter().collect());
            }
            for i in 0..cs.len() {
                let mut d = cs.clone();
                d.remove(i);
                bases.push(d.iter().collect());
                for a in alpha.iter().step_by(3) {
                    let mut s = cs.clone();
                    s[i] = *a;
                    bases.push(s.iter().collect());
                }
            }
            // one letter inserted anywhere (a keyword matcher that skips an optional letter accepts artan2 for atan2)
            for i in 0..=cs.len() {
                for a in alpha.iter().filter(|a| a.is_ascii_lowercase() || **a == '2' || **a == '_') {
                    let mut s = cs.clone();
                    s.insert(i, *a);
                    bases.push(s.iter().collect());
                }
            }
        }
        bases.sort();
        bases.dedup();
        let mut out = Vec::new();
        for b in bases {
            for suf in ["", "(", "(1)", "(1,2)", "()", "(1,2,3)", "2", "(1)2"] {
                out.push(format!("{}{}", b, suf));
            }
        }
        out
    })
}

fn deep_family(idx: u64) -> Option<(Ev, String)> {
    // families of inputs at the 256-char limit
    let ev = Ev::ALL[(idx % 5) as usize];
    let fam = (idx / 5) % 12;
    let n = 1 + ((idx / 60) as usize) * 7; // 1, 8, 15, …
    let s = match fam {
        0 => format!("{}1{}", "(".repeat(n.min(127)), ")".repeat(n.min(127))),
        1 => format!("{}1", "-".repeat(n.min(255))),
        2 if vocab::has_fact(ev) => format!("3{}", "!".repeat(n.min(250))),
        3 => format!("{}1{}", "abs(".repeat(n.min(50)), ")".repeat(n.min(50))),
        4 => format!("1{}", "+1".repeat(n.min(127))),
        5 => format!("2{}", "^2".repeat(n.min(127))),
        6 if ev != Ev::Cpx => format!("min({}1)", "1,".repeat(n.min(120))),
        7 => "(".repeat(n.min(256)),
        8 => format!("1{}", ")".repeat(n.min(255))),
        9 => format!("2{}", "(2)".repeat(n.min(84))),
        10 if vocab::has_floor_brackets(ev) => format!("{}1{}", "⌊".repeat(n.min(127)), "⌋".repeat(n.min(127))),
        11 => format!("{}", "9".repeat(n.min(256))),
        _ => return None,
    };
    Some((ev, s))
}

pub fn tree_profile(ev: Ev) -> Profile {
    let mut p = Profile::full(ev);
    p.lits = boundary_lits(ev);
    p.max_depth = 6;
    p.sups = ["2", "3", "0", "64", "99999999999999999999"].iter().map(|s| s.to_string()).collect();
    p
}

impl Prop for C01Prop {
    fn id(&self) -> &'static str {
        "C01"
    }
    fn rule(&self) -> String {
        "Cases are (evaluator, input string, placeholder). Enumerated exhaustively: every sequence of <=3 pieces over each evaluator's complete vocabulary (+literal pool, foreign tokens, the code points next to every non-ASCII vocabulary character), <=4 (quick) / <=5 (thorough) over one representative per token class, every string of <=3 (quick) / <=4 (thorough) chars over the keyword alphabet, the keyword neighbourhood (prefixes, one character deleted / substituted / inserted, call suffixes), every function name with 0..4 arguments of assorted magnitudes, nesting families up to 256 chars; then aggregate stress lists (2..60 arguments repeating a few values that are equal or adjacent in one representation only: 2^53 / 2^53+1 / 2^53.0, 0 / 0.0 / -0.0 / NaN, 2 / 2.00), random well-formed trees over boundary operands, token-level near-miss mutants and raw Unicode strings. Inputs containing '@' are run against the placeholder pool. distinct = distinct (evaluator,input,placeholder); non-trivial = the reference lexer yields >=2 tokens or the evaluator returned Ok. Oracle: the call returns Ok or Err (no panic; a process abort is detected by the supervisor).".into()
    }
    fn assumptions(&self) -> Vec<String> {
        vec!["a step-budget hit (possible hang) is counted as excluded here and reported by C02".into(), "stack depth: shard threads have 16 MiB stacks".into()]
    }
    fn subs(&self, tier: Tier) -> Vec<Sub> {
        let mut v = Vec::new();
        let tok_total: u64 = Ev::ALL.iter().map(|ev| seq_space(full_pieces(*ev).len() as u64, 3)).sum();
        v.push(Sub { name: "tokens3", kind: SubKind::Enum { count: tok_total } });
        let l = tier.pick(4, 5) as u32;
        let rep_total: u64 = Ev::ALL.iter().map(|ev| seq_space(class_reps(*ev).len() as u64, l)).sum();
        v.push(Sub { name: "classreps", kind: SubKind::Enum { count: rep_total } });
        let cl = tier.pick(3, 4) as u32;
        v.push(Sub { name: "chars", kind: SubKind::Enum { count: 5 * seq_space(char_alphabet().len() as u64, cl) } });
        v.push(Sub { name: "keywords", kind: SubKind::Enum { count: 5 * keyword_neighbourhood().len() as u64 } });
        v.push(Sub { name: "arity", kind: SubKind::Enum { count: 5 * arity_cases().len() as u64 } });
        v.push(Sub { name: "deep", kind: SubKind::Enum { count: 60 * 37 } });
        v.push(Sub { name: "tree", kind: SubKind::Random { cases: tier.pick(400_000, 20_000_000), len: 160 } });
        v.push(Sub { name: "mutant", kind: SubKind::Random { cases: tier.pick(400_000, 20_000_000), len: 160 } });
        v.push(Sub { name: "raw", kind: SubKind::Random { cases: tier.pick(300_000, 10_000_000), len: 120 } });
        v.push(Sub { name: "agg-stress", kind: SubKind::Random { cases: tier.pick(150_000, 5_000_000), len: 120 } });
        v
    }
    fn gen_enum(&self, sub: &str, mut idx: u64, tier: Tier) -> Option<Case> {
        match sub {
            "tokens3" | "classreps" => {
                let maxlen = if sub == "tokens3" { 3 } else { tier.pick(4, 5) as u32 };
                for ev in Ev::ALL {
                    let pieces = if sub == "tokens3" { full_pieces(ev) } else { class_reps(ev) };
                    let n = pieces.len() as u64;
                    let block = seq_space(n, maxlen);
                    if idx < block {
                        let seq = seq_decode(idx, n, maxlen);
                        let s: String = seq.iter().map(|i| pieces[*i].as_str()).collect();
                        return Some(Case::new(ev, s, Val::default_for(ev)));
                    }
                    idx -= block;
                }
                None
            }
            "chars" => {
                let alpha = char_alphabet();
                let ev = Ev::ALL[(idx % 5) as usize];
                let seq = seq_decode(idx / 5, alpha.len() as u64, 4);
                Some(Case::new(ev, seq.iter().map(|i| alpha[*i]).collect(), Val::default_for(ev)))
            }
            "keywords" => {
                let k = keyword_neighbourhood();
                let ev = Ev::ALL[(idx % 5) as usize];
                Some(Case::new(ev, k[(idx / 5) as usize % k.len()].clone(), Val::default_for(ev)))
            }
            "deep" => deep_family(idx).map(|(ev, s)| Case::new(ev, s, Val::default_for(ev))),
            "arity" => {
                let k = arity_cases();
                let ev = Ev::ALL[(idx % 5) as usize];
                Some(Case::new(ev, k[(idx / 5) as usize % k.len()].clone(), Val::default_for(ev)))
            }
            _ => None,
        }
    }
    fn gen(&self, sub: &str, c: &mut dyn Choices) -> Option<Case> {
        let ev = Ev::ALL[c.below(5) as usize];
        let ph = pick_ph(ev, c);
        let s = match sub {
            "agg-stress" => {
                // 2..60 arguments drawn (with many repeats) from a handful of values that compare equal or adjacent in
                // one representation but not in another: what a sort with an inconsistent comparator trips over
                let groups: Vec<Vec<&str>> = match ev {
                    Ev::I64 => vec![vec!["9223372036854775807", "9223372036854775806", "(-9223372036854775807-1)", "@"], vec!["0", "(-0)", "1", "@"]],
                    Ev::Dec => vec![vec!["2", "2.00", "2.0", "@"], vec!["0", "(-0)", "0.00", "(-0.0)"], vec!["79228162514264337593543950335", "79228162514264337593543950334", "@"]],
                    Ev::Cpx => return None,
                    _ => vec![
                        vec!["9007199254740992", "9007199254740993", "9007199254740992.0", "@"],
                        vec!["9223372036854775807", "9223372036854775806", "9223372036854775808.0", "@"],
                        vec!["0", "0.0", "(-0.0)", "(0/0)", "@"],
                        vec!["1", "1.0", "(0/0)", "(-(0/0))", "@"],
                        vec!["(1/0)", "(-1/0)", "(0/0)", "1", "@"],
                    ],
                };
                let g = &groups[c.below(groups.len() as u32) as usize];
                let fs = ["min", "max", "med", "median", "avg", "gcd", "lcm"];
                let f = fs[c.below(fs.len() as u32) as usize];
                if vocab::func(ev, f).is_none() {
                    return None;
                }
                let n = match c.below(4) {
                    0 => 2 + c.below(8),
                    1 => 19 + c.below(6),
                    _ => 21 + c.below(40),
                } as usize;
                let args: Vec<&str> = (0..n).map(|_| g[c.below(g.len() as u32) as usize]).collect();
                format!("{}({})", f, args.join(","))
            }
            "tree" => {
                let p = tree_profile(ev);
                grammar::render(&gen::gen_expr(&p, c, p.max_depth))
            }
            "mutant" => {
                let p = tree_profile(ev);
                let mut s = grammar::render(&gen::gen_expr(&p, c, 4));
                let k = 1 + c.below(3);
                for _ in 0..k {
                    s = gen::mutate(ev, &s, c).0;
                }
                s
            }
            _ => gen::gen_raw(c, 256),
        };
        if char_len(&s) > 256 {
            return None;
        }
        Some(Case::new(ev, s, ph))
    }
    fn check(&self, _sub: &str, case: &Case, sc: &mut ShardCtx) -> Result<(), Failure> {
        let ev = case.ev;
        // inputs with '@' also meet the rest of the placeholder pool
        let mut phs = vec![case.ph.clone()];
        if case.input.contains('@') {
            let pool = ph_pool(ev);
            match sc.tier {
                Tier::Thorough => phs.extend(pool),
                Tier::Quick => {
                    let h = case.hash() as usize;
                    for k in 0..4 {
                        phs.push(pool[(h + k * 7) % pool.len()].clone());
                    }
                }
            }
        }
        let ntok = lex::lex(ev, &case.input).map(|t| t.len()).unwrap_or(0);
        for ph in phs {
            let o = eval(sc, ev, &case.input, &ph);
            match &o {
                Outcome::Panic(_, _) => {
                    let mut f = outcome_failure_panic(ev, &o).unwrap();
                    f.detail = format!("placeholder={}", ph.enc());
                    // make the replay carry the placeholder that failed
                    return Err(f.with_case(Case { ev, input: case.input.clone(), ph, aux: vec![] }));
                }
                Outcome::Budget(_) => sc.exclude("budget(owned by C02)"),
                Outcome::Ok(_) => sc.class("evaluated-ok"),
                Outcome::Err => {
                    if ntok == 0 {
                        sc.class("lexical-error")
                    } else {
                        sc.class("err")
                    }
                }
            }
            if ntok >= 2 || o.is_ok() {
                let c2 = Case { ev, input: case.input.clone(), ph: ph.clone(), aux: vec![] };
                sc.nontrivial(c2.hash(), || sample(&c2, &o.show()));
            }
        }
        Ok(())
    }
}

