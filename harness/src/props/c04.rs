//! C04 — "In every evaluator an expression is grouped by one fixed precedence order, from loosest to
//! tightest: | ; & ; << >> ; binary + - ; * / % and the postfix ° and rad ; ^ and superscript
//! exponents ; prefix + - ; postfix ! and function application. Operators of equal precedence,
//! including ^, group left to right, so a prefix sign binds tighter than ^ (-2^2 = 4) but looser than !
//! (-3! = -6) and the right operand of ^ absorbs only ! (2^3! = 2^(3!)). Round brackets and the
//! ⌊ ⌋ ⌈ ⌉ brackets override this order, and the value is that of evaluating the tree so obtained."
//!
//! Two independent oracles: (a) reference evaluation of the reference (stratified) parse;
//! (b) metamorphic: the fully bracketed rendering of that parse evaluates to the same outcome.

use super::common::*;
use crate::api::{Ev, Val};
use crate::choice::Choices;
use crate::gen::{self, Profile};
use crate::grammar::{self, BinOp, E};
use crate::refeval;
use crate::run::{Case, Failure, Prop, ShardCtx, Sub, SubKind, Tier};
use crate::vocab;

pub struct C04Prop;
pub static C04: C04Prop = C04Prop;

fn operands2(ev: Ev) -> [&'static str; 4] {
    // powers of ten with large exponents are a classic special case
    match ev {
        Ev::I64 => ["10", "12", "2", "30"],
        Ev::Cpx => ["10", "24", "2i", "30"],
        Ev::Dec => ["10", "24", "2", "0.5"],
        _ => ["10", "24", "2", "30"],
    }
}

fn operands3(ev: Ev) -> [&'static str; 4] {
    // operands at the edge of the type: shift counts that reach the sign bit, products and sums at the range limit
    match ev {
        Ev::I64 => ["200", "56", "56", "3"],
        Ev::Cpx => ["(0-2)", "2", "0.5", "i"],
        Ev::Dec => ["7000000000000000000000000000", "100", "15", "0.0000000000000000000000000003"],
        Ev::Num => ["9007199254740993", "3", "2.0", "0.5"],
        Ev::F64 => ["9007199254740993", "3", "0.1", "(0-0)"],
    }
}

fn operands4(ev: Ev) -> [&'static str; 4] {
    // unremarkable magnitudes whose products and sums leave the exact range (a few 1e9 in the integer types, tenths in f64)
    match ev {
        Ev::I64 => ["3000000000", "4000000000", "1000", "7"],
        Ev::Num => ["3000000000", "4000000000", "1000", "6000000002"],
        Ev::Cpx => ["(1+2i)", "i", "0.1", "3"],
        Ev::Dec => ["0.1", "3", "7000000000000000000000000000", "1.5"],
        Ev::F64 => ["0.1", "0.2", "0.3", "3"],
    }
}

fn operands5(ev: Ev) -> [&'static str; 4] {
    // everyday conversions written out (degrees to radians, percentages): X*pi/180, X/100*15
    match ev {
        Ev::I64 => ["57", "100", "15", "3"],
        Ev::Cpx => ["3", "pi", "180", "i"],
        _ => ["3", "pi", "180", "57"],
    }
}

fn operands6(ev: Ev) -> [&'static str; 4] {
    // products that nearly cancel (discriminants, cross products): inexact products, equal after rounding or not
    match ev {
        Ev::I64 => ["33", "3", "11", "9"],
        Ev::Cpx => ["3.3", "3", "1.1", "9"],
        _ => ["33.3", "3", "11.1", "9"],
    }
}

fn operands(ev: Ev) -> [&'static str; 4] {
    match ev {
        Ev::I64 => ["2", "3", "5", "7"],
        Ev::Cpx => ["2", "3i", "(1+2i)", "5"],
        Ev::Dec => ["2", "3", "0.5", "7"],
        _ => ["2", "3", "0.5", "7"],
    }
}

fn decorations(ev: Ev, reduced: u32) -> Vec<&'static str> {
    // {} is the operand
    let mut v = vec!["{}", "-{}"];
    if reduced == 0 {
        return v;
    }
    if vocab::has_fact(ev) {
        v.push("{}!");
    }
    v.push("{}²");
    v.push("({})");
    if reduced == 1 {
        return v;
    }
    v.push("+{}");
    if vocab::has_deg(ev) {
        v.push("{}°");
        v.push("{}rad");
    }
    if vocab::has_floor_brackets(ev) {
        v.push("⌊{}⌋");
        v.push("⌈{}⌉");
    }
    v
}

fn groupings(k: usize) -> Vec<Vec<(usize, usize)>> {
    // list of bracket spans (first operand index, last operand index), at most one span
    let mut v: Vec<Vec<(usize, usize)>> = vec![vec![]];
    for a in 0..=k {
        for b in a + 1..=k {
            if !(a == 0 && b == k) {
                v.push(vec![(a, b)]);
            }
        }
    }
    v
}

struct Space {
    alt: u8,
    ev: Ev,
    k: usize,
    ops: Vec<BinOp>,
    decs: Vec<&'static str>,
    groups: Vec<Vec<(usize, usize)>>,
}

impl Space {
    fn size(&self) -> u64 {
        (self.ops.len() as u64).pow(self.k as u32) * (self.decs.len() as u64).pow(self.k as u32 + 1) * self.groups.len() as u64
    }
    fn decode(&self, mut idx: u64) -> String {
        let mut ops = Vec::new();
        for _ in 0..self.k {
            ops.push(self.ops[(idx % self.ops.len() as u64) as usize]);
            idx /= self.ops.len() as u64;
        }
        let mut decs = Vec::new();
        for _ in 0..=self.k {
            decs.push(self.decs[(idx % self.decs.len() as u64) as usize]);
            idx /= self.decs.len() as u64;
        }
        let g = &self.groups[(idx % self.groups.len() as u64) as usize];
        let base = match self.alt {
            0 => operands(self.ev),
            1 => operands2(self.ev),
            2 => operands3(self.ev),
            3 => operands4(self.ev),
            4 => operands5(self.ev),
            _ => operands6(self.ev),
        };
        let mut s = String::new();
        for i in 0..=self.k {
            if g.iter().any(|sp| sp.0 == i) {
                s.push('(');
            }
            s.push_str(&decs[i].replace("{}", base[i]));
            if g.iter().any(|sp| sp.1 == i) {
                s.push(')');
            }
            if i < self.k {
                s.push_str(ops[i].text());
            }
        }
        s
    }
}

fn spaces(sub: &str, tier: Tier) -> Vec<Space> {
    let mut v = Vec::new();
    for ev in Ev::ALL {
        let (k, red) = match (sub, tier) {
            ("enum1", _) => (1, 2),
            ("enum2", _) => (2, 2),
            ("enum3", Tier::Quick) => (3, 0),
            _ => (3, 1),
        };
        v.push(Space { alt: 0, ev, k, ops: BinOp::for_ev(ev), decs: decorations(ev, red), groups: groupings(k) });
        if k == 3 {
            // three-operator chains over the cancellation set (a*b-c*d and every other operator triple), bare operands
            v.push(Space { alt: 5, ev, k, ops: BinOp::for_ev(ev), decs: decorations(ev, 0), groups: groupings(k) });
        }
        if k <= 2 {
            v.push(Space { alt: 1, ev, k, ops: BinOp::for_ev(ev), decs: decorations(ev, if k == 1 { 2 } else { 1 }), groups: groupings(k) });
            v.push(Space { alt: 2, ev, k, ops: BinOp::for_ev(ev), decs: decorations(ev, if k == 1 { 2 } else { 1 }), groups: groupings(k) });
            v.push(Space { alt: 3, ev, k, ops: BinOp::for_ev(ev), decs: decorations(ev, if k == 1 { 2 } else { 1 }), groups: groupings(k) });
                        v.push(Space { alt: 4, ev, k, ops: BinOp::for_ev(ev), decs: decorations(ev, if k == 1 { 2 } else { 1 }), groups: groupings(k) });
                        v.push(Space { alt: 5, ev, k, ops: BinOp::for_ev(ev), decs: decorations(ev, if k == 1 { 2 } else { 1 }), groups: groupings(k) });
        }
    }
    v
}

fn ref_string(ev: Ev, e: &E, ph: &Val) -> Option<String> {
    // a comparable rendering of the exact reference result, if there is one
    use crate::api::Outcome;
    let probe = |o: Outcome| refeval::exact_agrees(ev, e, ph, &o);
    // derive the expected value string from the dispatcher's description
    probe(Outcome::Err).map(|(_, s)| s)
}

/// Does regrouping the first directly nested operator pair change the (reference) value?
fn alt_differs(ev: Ev, e: &E, ph: &Val) -> Option<bool> {
    let mut found: Option<(E, E)> = None;
    grammar::walk(e, &mut |n| {
        if found.is_some() {
            return;
        }
        if let E::Bin(op1, l, r) = n {
            if let E::Bin(op2, a, b) = &**l {
                let alt = E::Bin(*op2, a.clone(), Box::new(E::Bin(*op1, b.clone(), r.clone())));
                found = Some((n.clone(), alt));
            } else if let E::Bin(op2, b, c) = &**r {
                let alt = E::Bin(*op2, Box::new(E::Bin(*op1, l.clone(), b.clone())), c.clone());
                found = Some((n.clone(), alt));
            } else if let E::Neg(x) = &**l {
                let alt = E::Neg(Box::new(E::Bin(*op1, x.clone(), r.clone())));
                found = Some((n.clone(), alt));
            }
        }
        if let E::Neg(x) = n {
            if let E::Fact(y) = &**x {
                found = Some((n.clone(), E::Fact(Box::new(E::Neg(y.clone())))));
            }
        }
    });
    let (orig, alt) = found?;
    let a = ref_string(ev, &orig, ph)?;
    let b = ref_string(ev, &alt, ph)?;
    Some(a != b)
}

fn has_nested_pair(e: &E) -> bool {
    let is_op = |n: &E| matches!(n, E::Bin(_, _, _) | E::Neg(_) | E::Pos(_) | E::Fact(_) | E::Sup(_, _) | E::Deg(_) | E::Rad(_) | E::Juxt(_, _));
    let mut yes = false;
    grammar::walk(e, &mut |n| {
        let kids: Vec<&E> = match n {
            E::Bin(_, a, b) | E::Juxt(a, b) => vec![a, b],
            E::Neg(a) | E::Pos(a) | E::Fact(a) | E::Sup(a, _) | E::Deg(a) | E::Rad(a) => vec![a],
            _ => vec![],
        };
        if is_op(n) && kids.iter().any(|k| is_op(k)) {
            yes = true;
        }
    });
    yes
}

pub fn tree_profile(ev: Ev) -> Profile {
    let mut p = Profile::full(ev);
    p.lits = operands(ev).iter().filter(|s| !s.starts_with('(')).map(|s| s.to_string()).collect();
    p.lits.extend(["4", "1", "10", "24", "30", "100"].iter().map(|s| s.to_string()));
    p.neg_lits = true;
    p.max_depth = 6;
    p.funcs.retain(|f| !["w", "ilog"].contains(&f.canon));
    p
}

impl Prop for C04Prop {
    fn id(&self) -> &'static str {
        "C04"
    }
    fn rule(&self) -> String {
        "Well-formed expressions of every evaluator. Exhaustive: all chains of 1, 2 and 3 infix operators from the evaluator's full operator set over distinct operands, each operand optionally decorated (prefix -/+, postfix !, °, rad, superscript, ( ), ⌊ ⌋, ⌈ ⌉; enum3: reduced decoration set) and every single round-bracket span; long forms (flat chains of 2..512 operands per operator with order-sensitive operands such as 1e16+1.0+1.0… and i64::MAX+1+0…+(-2), deep brackets, prefix and postfix chains); random trees of depth <=6 (operators, prefix/postfix forms, brackets, calls, juxtaposition) beyond. Oracles: (a) exact reference evaluation of the stratified reference parse (bit-exact f64, i128-exact i64 with Err, typed number, exact decimal, component-exact complex + - *); (b) the fully bracketed, explicit-product rendering of the reference parse must evaluate to the same outcome bit for bit; (c) the same rendering with every operator node multiplied by 1 (opaque to shape-matching folds; not for complex, trees of <= 48 nodes). A fourth operand set uses unremarkable magnitudes whose products leave the exact range (3e9*4e9/1000, 0.1+0.2+0.3). A third operand set per evaluator sits at the edge of the type (shift counts reaching the sign bit, 2^53+1, Decimal range/scale limits). non-trivial = >=2 operator nodes, two operator nodes directly nested without brackets, and (where the reference can tell) regrouping that pair changes the value; distinct by (evaluator,input,placeholder).".into()
    }
    fn subs(&self, tier: Tier) -> Vec<Sub> {
        let mut v = Vec::new();
        for name in ["enum1", "enum2", "enum3"] {
            let total: u64 = spaces(name, tier).iter().map(|s| s.size()).sum();
            v.push(Sub { name, kind: SubKind::Enum { count: total } });
        }
        v.push(Sub { name: "long", kind: SubKind::Enum { count: super::long::all(true).len() as u64 } });
        v.push(Sub { name: "tree", kind: SubKind::Random { cases: tier.pick(600_000, 30_000_000), len: 160 } });
        v
    }
    fn gen_enum(&self, sub: &str, mut idx: u64, tier: Tier) -> Option<Case> {
        if sub == "long" {
            let (ev, s) = super::long::all(true).get(idx as usize)?.clone();
            return Some(Case::new(ev, s, Val::default_for(ev)));
        }
        for sp in spaces(sub, tier) {
            if idx < sp.size() {
                return Some(Case::new(sp.ev, sp.decode(idx), Val::default_for(sp.ev)));
            }
            idx -= sp.size();
        }
        None
    }
    fn gen(&self, _sub: &str, c: &mut dyn Choices) -> Option<Case> {
        let ev = Ev::ALL[c.below(5) as usize];
        let p = tree_profile(ev);
        let ph = pick_ph(ev, c);
        let s = grammar::render(&gen::gen_expr(&p, c, p.max_depth));
        if char_len(&s) > 256 {
            return None;
        }
        Some(Case::new(ev, s, ph))
    }
    fn check(&self, _sub: &str, case: &Case, sc: &mut ShardCtx) -> Result<(), Failure> {
        let ev = case.ev;
        let e = match accept(ev, &case.input) {
            Some(e) => e,
            None => {
                sc.exclude("not accepted by the reference parser (DontCare shape)");
                return Ok(());
            }
        };
        let o = match eval_normal(sc, ev, &case.input, &case.ph) {
            Some(o) => o,
            None => return Ok(()),
        };
        // (a) reference evaluation
        match refeval::exact_agrees(ev, &e, &case.ph, &o) {
            Some((true, _)) => sc.class("(a) reference value agrees"),
            Some((false, want)) => {
                let ph = case.ph.clone();
                let hd = localise(&e, &mut |n| {
                    let s = grammar::render(n);
                    matches!(refeval::exact_agrees(ev, n, &ph, &crate::api::eval(ev, &s, &ph)), Some((false, _)))
                });
                return Err(Failure::new(format!("{}/grouping-value/{}", ev.name(), hd), want, o.show()).detail(format!("reference tree: {}", grammar::render_full(&e))));
            }
            None => sc.class("(a) no exact reference (approximate or unspecified node)"),
        }
        // (b) fully bracketed rendering
        let full = grammar::render_full(&e);
        if let Some(o2) = eval_normal(sc, ev, &full, &case.ph) {
            if !o.same(&o2) {
                let ph = case.ph.clone();
                let hd = localise(&e, &mut |n| {
                    let (s, f) = (grammar::render(n), grammar::render_full(n));
                    let (a, b) = (crate::api::eval(ev, &s, &ph), crate::api::eval(ev, &f, &ph));
                    !a.is_abnormal() && !b.is_abnormal() && !a.same(&b)
                });
                return Err(Failure::new(format!("{}/bracketing/{}", ev.name(), hd), format!("same outcome as {:?}: {}", full, o2.show()), o.show()));
            }
            sc.class("(b) bracketed rendering agrees");
        }
        // (c) the same with every operator node made opaque by a neutral `*1`: a fold that pattern-matches operand shapes
        // through the brackets rewrites (b)'s rendering exactly as it rewrites the input
        if ev != Ev::Cpx && grammar::size(&e) <= 48 {
            let opq = grammar::render_opaque(&e);
            if let Some(o3) = eval_normal(sc, ev, &opq, &case.ph) {
                // rust_decimal gives a zero product scale 0 (0.00*1 = 0), so for Decimal (c) compares values, not scales
                let agree = |a: &crate::api::Outcome, b: &crate::api::Outcome| match (a, b) {
                    (crate::api::Outcome::Ok(Val::D(x)), crate::api::Outcome::Ok(Val::D(y))) => x == y,
                    _ => a.same(b),
                };
                if !agree(&o, &o3) {
                    let ph = case.ph.clone();
                    let hd = localise(&e, &mut |n| {
                        let (s, f) = (grammar::render(n), grammar::render_opaque(n));
                        let (a, b) = (crate::api::eval(ev, &s, &ph), crate::api::eval(ev, &f, &ph));
                        !a.is_abnormal() && !b.is_abnormal() && !agree(&a, &b)
                    });
                    return Err(Failure::new(format!("{}/opaque-bracketing/{}", ev.name(), hd), format!("same outcome as {:?}: {}", opq, o3.show()), o.show()));
                }
                sc.class("(c) opaque bracketed rendering agrees");
            }
        }
        let ops = grammar::op_count(&e);
        if ops >= 2 && has_nested_pair(&e) {
            let nt = match alt_differs(ev, &e, &case.ph) {
                Some(b) => b,
                None => true,
            };
            if nt {
                sc.nontrivial(case.hash(), || sample(case, &o.show()));
            } else {
                sc.class("regrouping would not change the value");
            }
        }
        Ok(())
    }
}
