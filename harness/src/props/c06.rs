//! C06 — "For expressions over + - * / % ^ (exponent 0..4294967295), & | << >>, unary minus, abs,
//! sgn, mod, pow and n! (n >= 0), eval_i64 returns the exact mathematical integer … whenever every
//! intermediate result fits in i64. If an intermediate result of + - * ^ ! abs or unary minus would
//! overflow i64, a divisor is zero, or a shift count is outside 0..63, it returns Err: it never
//! returns a wrapped or otherwise fabricated value, and behaves identically in debug and release."

use super::common::*;
use crate::api::{Ev, Val};
use crate::choice::Choices;
use crate::gen::{self, Profile};
use crate::grammar::{self, BinOp};
use crate::refeval::i64r::{self, RI};
use crate::run::{Case, Failure, Prop, ShardCtx, Sub, SubKind, Tier};
use std::sync::OnceLock;

pub struct C06Prop;
pub static C06: C06Prop = C06Prop;

pub fn pool() -> Vec<i64> {
    vec![
        0, 1, -1, 2, -2, 3, 7, 10, 20, 21, 62, 63, 64, 65, 2147483647, -2147483647, 2147483648, -2147483648, 4294967296, -4294967296, 4294967295, 3037000499, 3037000500, -3037000500,
        9007199254740991, 9007199254740993, 4611686018427387904, -4611686018427387904, 9223372036854775806, 9223372036854775807, -9223372036854775807, i64::MIN, 6, 12, 100, 4294967297, 2097152, 1 << 40, -(1 << 40), 715827883,
    ]
}

fn pool_exprs() -> Vec<String> {
    let mut v: Vec<String> = pool().into_iter().map(i64_expr).collect();
    v.push("@".into());
    v
}

const OPS: [&str; 10] = ["+", "-", "*", "/", "%", "^", "&", "|", "<<", ">>"];

fn binary_cases() -> &'static Vec<String> {
    static CELL: OnceLock<Vec<String>> = OnceLock::new();
    CELL.get_or_init(|| {
        let p = pool_exprs();
        let mut v = Vec::new();
        for a in &p {
            for b in &p {
                for op in OPS {
                    v.push(format!("{}{}{}", a, op, b));
                }
                v.push(format!("mod({},{})", a, b));
                v.push(format!("pow({},{})", a, b));
            }
            for f in ["abs", "sgn", "sign", "signum"] {
                v.push(format!("{}({})", f, a));
            }
            v.push(format!("-{}", a));
            v.push(format!("{}!", a));
            v.push(format!("{}²", a));
            v.push(format!("{}⁶³", a));
            v.push(format!("{}⁶⁴", a));
        }
        for n in 0..=25 {
            v.push(format!("{}!", n));
        }
        // b^n at the exact edge of the range for every exponent: the largest base whose power fits, the next one, both signs
        // ((-2)^63 = i64::MIN fits, 2^63 does not)
        for n in 2u32..=63 {
            let mut b: i128 = ((i64::MAX as f64).powf(1.0 / n as f64)) as i128 + 2;
            while b.pow(n) > i64::MAX as i128 {
                b -= 1;
            }
            for base in [b, b + 1, -b, -(b + 1)] {
                let bs = if base < 0 { format!("({})", base) } else { format!("{}", base) };
                v.push(format!("{}^{}", bs, n));
                v.push(format!("pow({},{})", base, n));
                if n <= 20 {
                    v.push(format!("{}{}", bs, crate::vocab::ascii_to_sup(&n.to_string())));
                }
            }
        }
        // an operation at the edge of the range at the head of a long flat chain (evaluators that fold long chains in a
        // loop re-state the operators): 10 … 600 further terms
        for head in ["@%(0-1)", "@/(0-1)", "@*(0-1)", "-@", "abs(@)", "@%(0-1)*1", "@-1", "@+1", "@*2/2", "(0-1)*@", "@%@", "@/@"] {
            for n in [10usize, 100, 255, 256, 257, 300, 600] {
                for tail in ["+1", "-1", "*1", "+0"] {
                    v.push(format!("{}{}", head, tail.repeat(n)));
                }
            }
        }
        for s in super::long::huge(Ev::I64) {
            v.push(s);
        }
        // the same values spelled with redundant leading zeros (digit counters, fixed buffers): the value decides, not the text
        for z in [1usize, 2, 17, 18, 19, 20, 21, 30, 63, 64, 100, 200] {
            for d in ["0", "7", "42", "9223372036854775807", "9223372036854775808", "3037000500"] {
                let lit = format!("{}{}", "0".repeat(z), d);
                v.push(lit.clone());
                v.push(format!("{}*2-@", lit));
                v.push(format!("@+{}", lit));
                v.push(format!("{}*{}", lit, lit));
                v.push(format!("2^{}", format!("{}{}", "0".repeat(z), "5")));
            }
        }
        v
    })
}

fn triple_cases() -> &'static Vec<String> {
    static CELL: OnceLock<Vec<String>> = OnceLock::new();
    CELL.get_or_init(|| {
        let sub: Vec<String> = [0i64, 1, -1, 2, 3, 63, 64, 3037000500, 4294967296, 4611686018427387904, i64::MAX, i64::MIN].iter().map(|v| i64_expr(*v)).collect();
        let mut v = Vec::new();
        for a in &sub {
            for b in &sub {
                for c in &sub {
                    for o1 in OPS {
                        for o2 in OPS {
                            v.push(format!("{}{}{}{}{}", a, o1, b, o2, c));
                        }
                    }
                }
            }
        }
        v
    })
}

pub fn profile() -> Profile {
    let mut p = Profile::full(Ev::I64);
    p.funcs.retain(|f| ["abs", "sgn", "mod", "pow"].contains(&f.canon));
    p.lits = pool().into_iter().filter(|v| *v >= 0).map(|v| v.to_string()).collect();
    p.sups = ["2", "3", "0", "1", "62", "63", "64"].iter().map(|s| s.to_string()).collect();
    p.juxt = true;
    p.max_depth = 6;
    p
}

impl Prop for C06Prop {
    fn id(&self) -> &'static str {
        "C06"
    }
    fn rule(&self) -> String {
        "Well-formed eval_i64 expressions over + - * / % ^ & | << >>, unary minus, abs sgn mod pow, n!, superscripts. Exhaustive: a op b for all 10 infix operators (and mod, pow) x boundary pool^2 (41 values incl. 0, +-1, 2^31, 2^32, 3037000499/500, 2^53+-1, 2^62, MAX-1, MAX, MIN+1, MIN, @ with every placeholder), every unary form x pool, n! for n=0..25, a op1 b op2 c for all operator pairs over a 12-value sub-pool; random trees of depth <=6 beyond. Run in both profiles (overflow checks on/off). Oracle: exact i128 evaluation of the reference parse with a range check after every node (Err on overflow of + - * ^ ! abs neg, zero divisor, MIN/-1, shift count outside 0..63; unspecified: << that does not fit, exponent outside 0..2^32-1, n! for n<0). non-trivial = some intermediate has magnitude >= 2^31 or the reference outcome is Err; distinct by (input, placeholder).".into()
    }
    fn assumptions(&self) -> Vec<String> {
        vec!["unspecified cases are only compared across the two profiles (side channel), not against a value".into()]
    }
    fn subs(&self, tier: Tier) -> Vec<Sub> {
        vec![
            Sub { name: "binary", kind: SubKind::Enum { count: binary_cases().len() as u64 } },
            Sub { name: "triples", kind: SubKind::Enum { count: triple_cases().len() as u64 } },
            Sub { name: "tree", kind: SubKind::Random { cases: tier.pick(600_000, 30_000_000), len: 160 } },
        ]
    }
    fn gen_enum(&self, sub: &str, idx: u64, _tier: Tier) -> Option<Case> {
        let s = match sub {
            "binary" => binary_cases().get(idx as usize)?.clone(),
            _ => triple_cases().get(idx as usize)?.clone(),
        };
        Some(Case::new(Ev::I64, s, Val::I(0)))
    }
    fn gen(&self, _sub: &str, c: &mut dyn Choices) -> Option<Case> {
        let p = profile();
        let ph = pick_ph(Ev::I64, c);
        let s = grammar::render(&gen::gen_expr(&p, c, p.max_depth));
        if char_len(&s) > 256 {
            return None;
        }
        Some(Case::new(Ev::I64, s, ph))
    }
    fn check(&self, sub: &str, case: &Case, sc: &mut ShardCtx) -> Result<(), Failure> {
        let e = match accept(Ev::I64, &case.input) {
            Some(e) => e,
            None => {
                sc.exclude("not accepted by the reference parser");
                return Ok(());
            }
        };
        let phs: Vec<Val> = if sub != "tree" && case.input.contains('@') { ph_pool(Ev::I64) } else { vec![case.ph.clone()] };
        for ph in phs {
            let p = match ph {
                Val::I(p) => p,
                _ => continue,
            };
            let want = i64r::eval(&e, p);
            if want == RI::Err {
                // C06 demands a returned Err here: a panic (possible only in one build profile) is a violation of C06 too
                let o = eval(sc, Ev::I64, &case.input, &ph);
                if let crate::api::Outcome::Panic(_, _) = o {
                    return Err(Failure::new("i64/panic-instead-of-err", "Err", o.show()).with_case(Case { ev: Ev::I64, input: case.input.clone(), ph: ph.clone(), aux: vec![] }));
                }
            }
            let o = match eval_normal(sc, Ev::I64, &case.input, &ph) {
                Some(o) => o,
                None => continue,
            };
            match i64r::agrees(want, &o) {
                None => {
                    sc.exclude("unspecified by C06 (only compared across profiles)");
                    if sub != "tree" {
                        sc.side.push(format!("{}\t{}\t{}", case.input, ph.enc(), o.enc()));
                    }
                }
                Some(true) => {
                    sc.class(match want {
                        RI::Err => "expected-Err",
                        _ => "expected-value",
                    });
                    let big = want == RI::Err || has_big_intermediate(&e, p);
                    if big {
                        let c2 = Case { ev: Ev::I64, input: case.input.clone(), ph: ph.clone(), aux: vec![] };
                        sc.nontrivial(c2.hash(), || sample(&c2, &o.show()));
                    }
                }
                Some(false) => {
                    let hd = localise(&e, &mut |n| {
                        let s = grammar::render(n);
                        i64r::agrees(i64r::eval(n, p), &crate::api::eval(Ev::I64, &s, &ph)) == Some(false)
                    });
                    let cls = match (&want, &o) {
                        (RI::Err, _) => "value-instead-of-err",
                        (_, crate::api::Outcome::Err) => "err-instead-of-value",
                        _ => "wrong-value",
                    };
                    return Err(Failure::new(format!("i64/{}/{}", cls, hd), format!("{:?}", want), o.show()).with_case(Case { ev: Ev::I64, input: case.input.clone(), ph: ph.clone(), aux: vec![] }));
                }
            }
        }
        Ok(())
    }
}

/// some node of the tree has a reference value of magnitude >= 2^31
pub fn has_big_intermediate(e: &grammar::E, ph: i64) -> bool {
    let mut big = false;
    grammar::walk(e, &mut |n| {
        if let RI::Val(v) = i64r::eval(n, ph) {
            if v.unsigned_abs() >= (1u64 << 31) {
                big = true;
            }
        }
    });
    let _ = BinOp::Add;
    big
}
