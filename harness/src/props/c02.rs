//! C02 — "Every call returns after a number of lexing, parsing and evaluation steps bounded by a
//! fixed linear function of the input length (at most 4096 + 256*len counted loop iterations and
//! recursive calls), independent of the magnitude of the numbers involved. In particular x!,
//! ilog(n,b), w(x), gcd and lcm return promptly for every argument, including huge, non-finite,
//! zero, negative and base-1 arguments."
//!
//! Oracle: the `verif_hooks` step counter, armed with exactly 4096 + 256*len.

use super::c01;
use super::common::*;
use crate::api::{self, Ev, Outcome, Val};
use crate::choice::Choices;
use crate::gen;
use crate::grammar::{self, E};
use crate::run::{Case, Failure, Prop, ShardCtx, Sub, SubKind, Tier};
use crate::vocab;
use std::sync::OnceLock;

pub struct C02Prop;
pub static C02: C02Prop = C02Prop;

pub fn budget_for(input: &str) -> u64 {
    4096 + 256 * char_len(input) as u64
}

fn extreme_args(ev: Ev) -> Vec<String> {
    let mut v: Vec<String> = ["0", "1", "2", "10", "170", "171", "1000000000000000000", "(-1)", "(-2)", "@", "(1/0)", "(0-1/0)", "(0/0)", "21", "63", "64", "3"].iter().map(|s| s.to_string()).collect();
    // integers next to perfect squares / cubes beyond 2^53 (integer Newton iterations that oscillate instead of settling)
    for k in [3000000001i128, 100000001, 94906267, 2147483648, 1000000000, 123456790, 3037000499] {
        for d in [-1i128, 0, 1] {
            let n = k * k + d;
            if n <= i64::MAX as i128 {
                v.push(n.to_string());
            }
        }
    }
    v.extend(["999999999999999999", "18014398509481983", "4611686018427387903", "2097151999999999999"].iter().map(|s| s.to_string()));
    if ev != Ev::I64 {
        v.extend(["0.5", "1.2", "1.0000001", "1.4", "1.5", "0.999", "(-0.5)", "(-0.3678794411714423)", "(-0.36)"].iter().map(|s| s.to_string()));
        v.extend(near_constants().into_iter().map(|s| s.to_string()));
        v.push("9".repeat(60));
        // large arguments of both signs that are not integers (reflection / recurrence loops that walk |x| steps)
        v.extend(["(-7000.5)", "(-100000.5)", "(-123456789012.5)", "(0.5-2^31)", "7000.5", "123456789012.5", "(-170.5)", "(-4000000000000000.5)", "99999.25", "(-99999.25)"].iter().map(|s| s.to_string()));
    } else {
        v.push("9223372036854775807".into());
        v.push("(-9223372036854775807-1)".into());
    }
    if matches!(ev, Ev::F64 | Ev::Num) {
        v.push("9".repeat(400));
        v.push("e".into());
    }
    v
}

fn loop_cases() -> &'static Vec<Case> {
    static CELL: OnceLock<Vec<Case>> = OnceLock::new();
    CELL.get_or_init(|| {
        let mut out = Vec::new();
        for ev in Ev::ALL {
            let args = extreme_args(ev);
            let has = |n: &str| vocab::func(ev, n).is_some();
            let mut strings: Vec<String> = Vec::new();
            for a in &args {
                if vocab::has_fact(ev) {
                    strings.push(format!("{}!", a));
                    strings.push(format!("{}!!", a));
                    strings.push(format!("{}!!!!!!", a));
                }
                for f in ["w", "lambert_w", "exp2", "exp", "sqrt", "ln", "lb"] {
                    if has(f) {
                        strings.push(format!("{}({})", f, a));
                    }
                }
                for b in &args {
                    for f in ["ilog", "gcd", "lcm", "pow", "root", "log", "mod", "atan2"] {
                        if has(f) {
                            strings.push(format!("{}({},{})", f, a, b));
                        }
                    }
                    strings.push(format!("{}^{}", a, b));
                    if ev == Ev::I64 {
                        strings.push(format!("{}<<{}", a, b));
                        strings.push(format!("{}>>{}", a, b));
                    }
                }
                for f in ["min", "max", "avg", "med", "gcd", "lcm"] {
                    if has(f) {
                        for n in [1usize, 2, 3, 7, 20, 40] {
                            let list: Vec<&str> = (0..n).map(|_| a.as_str()).collect();
                            let s = format!("{}({})", f, list.join(","));
                            if char_len(&s) <= 256 {
                                strings.push(s);
                            }
                        }
                    }
                }
            }
            // quotients of factorials / binomial shapes with large whole arguments (a fast path that loops over the arguments'
            // value instead of failing fast)
            if vocab::has_fact(ev) {
                for (n, k, m) in [("30000", "15000", "15000"), ("100000", "50000", "50000"), ("4000000000000000", "2000000000000000", "2000000000000000"), ("171", "85", "86"), ("1000", "1", "999"), ("100000", "99999", "1"), ("20", "10", "10")] {
                    strings.push(format!("{}!/({}!*{}!)", n, k, m));
                    strings.push(format!("{}!/{}!/{}!", n, k, m));
                    strings.push(format!("{}!/({}!*({}-{})!)", n, k, n, k));
                    strings.push(format!("{}!/{}!", n, k));
                }
            }
            strings.sort();
            strings.dedup();
            for s in strings {
                if char_len(&s) > 256 {
                    continue;
                }
                if s.contains('@') {
                    for ph in ph_pool(ev) {
                        out.push(Case::new(ev, s.clone(), ph));
                    }
                } else {
                    out.push(Case::new(ev, s, Val::default_for(ev)));
                }
            }
        }
        out
    })
}

/// Length-scaling families: the linear term of the bound.
fn scaling_case(idx: u64) -> Option<Case> {
    let ev = Ev::ALL[(idx % 5) as usize];
    let fam = (idx / 5) % 10;
    let n = 1 + (idx / 50) as usize; // 1..=256
    let s = match fam {
        0 => format!("{}1{}", "(".repeat(n.min(127)), ")".repeat(n.min(127))),
        1 => format!("1{}", "+1".repeat(n.min(127))),
        2 => "7".repeat(n.min(256)),
        3 if ev != Ev::Cpx => format!("min({}1)", "1,".repeat(n.min(120))),
        4 => format!("{}1", "-".repeat(n.min(255))),
        5 => format!("1{}", "*1".repeat(n.min(127))),
        6 => format!("2{}", "(1)".repeat(n.min(84))),
        7 => format!("{}1{}", "abs(".repeat(n.min(50)), ")".repeat(n.min(50))),
        8 => format!("1{}", "²".repeat(n.min(255))),
        9 if vocab::has_fact(ev) => format!("1{}", "!".repeat(n.min(255))),
        _ => return None,
    };
    Some(Case::new(ev, s, Val::default_for(ev)))
}

/// Every function nested inside itself / a partner in the first and in the last argument position, as deep as
/// 256 characters allow: a construct that evaluates (or re-parses) a child twice needs 2^depth steps.
fn nesting_cases() -> &'static Vec<Case> {
    static CELL: OnceLock<Vec<Case>> = OnceLock::new();
    CELL.get_or_init(|| {
        let mut out = Vec::new();
        for ev in Ev::ALL {
            let fs = vocab::funcs(ev);
            for f in &fs {
                let partners: Vec<&str> = match f.canon {
                    "min" => vec!["min", "max"],
                    "max" => vec!["max", "min"],
                    _ => vec![f.name],
                };
                for partner in partners {
                    for (first, extra) in [(true, 0), (false, 0), (true, 1), (false, 1)] {
                        if (f.arity == vocab::Arity::One && !first) || (extra == 1 && !matches!(f.arity, vocab::Arity::Var1 | vocab::Arity::Var0)) {
                            continue;
                        }
                        let mut depth = 1usize;
                        'depths: loop {
                          // the well-formed core first, then cores that make the innermost call fail to parse (a parser
                          // that retries or backtracks on errors multiplies its work per level) and truncated closers
                          for core in ["1", "", "1+", "1..2", ",", ")", "(", "\u{1}(8)"] {
                            // build f(g(f(g(... 1 ...),2),2),2)
                            let mut s = if core.starts_with('\u{1}') { format!("{}{}", f.name, &core[1..]) } else { String::from(core) };
                            for d in 0..depth {
                                let name = if d % 2 == 0 { f.name } else { partner };
                                s = match (f.arity, first, extra) {
                                    (vocab::Arity::One, _, _) => format!("{}({})", name, s),
                                    (vocab::Arity::Two, true, _) => format!("{}({},2)", name, s),
                                    (vocab::Arity::Two, false, _) => format!("{}(2,{})", name, s),
                                    (_, true, 0) => format!("{}({},2)", name, s),
                                    (_, false, 0) => format!("{}(2,{})", name, s),
                                    (_, true, _) => format!("{}({},2,3)", name, s),
                                    (_, false, _) => format!("{}(2,3,{})", name, s),
                                };
                            }
                            if char_len(&s) > 256 {
                                if core == "1" {
                                    break 'depths;
                                }
                                continue;
                            }
                            if depth % 3 == 0 || depth < 4 {
                                if core == "1" {
                                    let cs: Vec<char> = s.chars().collect();
                                    out.push(Case::new(ev, cs[..cs.len() - 1].iter().collect::<String>(), Val::default_for(ev)));
                                    out.push(Case::new(ev, cs[..cs.len() - (depth + 1) / 2].iter().collect::<String>(), Val::default_for(ev)));
                                }
                                out.push(Case::new(ev, s, Val::default_for(ev)));
                            }
                          }
                            depth += 1;
                        }
                    }
                }
            }
            // operators and brackets nested on the left and on the right
            for (open, close) in [("(", ")"), ("-(", ")"), ("2*(", ")"), ("(", ")*2"), ("(", ")^2"), ("2^(", ")"), ("(", ")!"), ("⌊", "⌋"), ("2(", ")")] {
                if (open.contains('⌊') && !vocab::has_floor_brackets(ev)) || (close.contains('!') && !vocab::has_fact(ev)) {
                    continue;
                }
                for depth in [1usize, 2, 4, 8, 16, 24, 32, 48, 64, 84, 100, 127] {
                    for core in ["1", "", "1+", "1..2", ")", ","] {
                        let s = format!("{}{}{}", open.repeat(depth), core, close.repeat(depth));
                        if char_len(&s) <= 256 {
                            if core == "1" && depth > 1 {
                                let cs: Vec<char> = s.chars().collect();
                                out.push(Case::new(ev, cs[..cs.len() - close.chars().count()].iter().collect::<String>(), Val::default_for(ev)));
                            }
                            out.push(Case::new(ev, s, Val::default_for(ev)));
                        }
                    }
                }
            }
            // shells made of an operator pair (continued fractions, nested radicals, Horner chains), right- and left-nested,
            // over operands that make every level fail, overflow or change type: an evaluator that retries, re-evaluates
            // or speculates on an operand doubles its work per level
            let ops = vocab::infix(ev);
            let cores: Vec<&str> = match ev {
                Ev::I64 => vec!["1", "@", "(1/0)"],
                Ev::Cpx => vec!["1", "@"],
                _ => vec!["1", "@", "0.5", "w(-5)"],
            };
            let phs: Vec<Val> = match ev {
                Ev::I64 => vec![Val::I(1), Val::I(4000000007), Val::I(i64::MAX), Val::I(0)],
                Ev::Num => vec![Val::NI(1), Val::NI(4000000007), Val::NF(0.5), Val::NI(i64::MAX)],
                Ev::F64 => vec![Val::F(1.0), Val::F(0.5), Val::F(1e308)],
                Ev::Dec => vec![Val::D(dec("1")), Val::D(dec("0.5")), Val::D(dec("79228162514264337593543950335"))],
                Ev::Cpx => vec![Val::C(1.0, 0.5)],
            };
            let mut fns: Vec<String> = vec!["".into(), "sqrt".into(), "abs".into()];
            if ev != Ev::Cpx {
                fns.push("max".into());
            }
            for op1 in ops.iter() {
                for op2 in ops.iter() {
                    for f in &fns {
                        for core in &cores {
                            for right in [true, false] {
                                // right-nested: a op1 b op2 f( ... )     left-nested: f( ... ) op1 a op2 b
                                let (open, close) = if right { (format!("@{}@{}{}(", op1, op2, f), ")".to_string()) } else { (format!("{}(", f), format!("){}@{}@", op1, op2)) };
                                let per = char_len(&open) + char_len(&close);
                                for depth in [11usize, 13, 16, 24, 40] {
                                    if depth * per + char_len(core) > 250 {
                                        continue;
                                    }
                                    let text = format!("{}{}{}", open.repeat(depth), core, close.repeat(depth));
                                    for ph in &phs {
                                        out.push(Case::new(ev, text.clone(), ph.clone()));
                                    }
                                    // the same with literal operands instead of the placeholder
                                    out.push(Case::new(ev, text.replace('@', "1"), Val::default_for(ev)));
                                }
                            }
                        }
                    }
                    // flat alternating chains  @ op1 @ op2 @ op1 @ ...
                    for n in [12usize, 24, 60, 120] {
                        let mut text = String::from("@");
                        for k in 0..n {
                            text.push_str(if k % 2 == 0 { op1 } else { op2 });
                            text.push('@');
                        }
                        if char_len(&text) <= 256 {
                            for ph in &phs {
                                out.push(Case::new(ev, text.clone(), ph.clone()));
                            }
                        }
                    }
                }
            }
        }
        out
    })
}

/// Smallest subtree (by the reference parse) that exceeds its own budget: its head names the construct.
fn localise(ev: Ev, input: &str, ph: &Val) -> String {
    // cheap path: exactly one looping construct occurs in the text
    let stripped = crate::lex::strip_ws(input);
    let mut present: Vec<&str> = Vec::new();
    for (pat, name) in [("ilog(", "fn:ilog"), ("w(", "fn:w"), ("!", "fact"), ("gcd(", "fn:gcd"), ("lcm(", "fn:lcm")] {
        if stripped.contains(pat) && !present.contains(&name) {
            present.push(name);
        }
    }
    if present.len() == 1 {
        return present[0].to_string();
    }
    let e = match accept(ev, input) {
        Some(e) => e,
        None => return "unparsed".into(),
    };
    let mut best: Option<(usize, String)> = None;
    grammar::walk(&e, &mut |n: &E| {
        if !matches!(n, E::Fact(_) | E::Call(_, _)) {
            return;
        }
        let s = grammar::render(n);
        if let Outcome::Budget(_) = api::eval_measured(ev, &s, ph, budget_for(&s)).outcome {
            let sz = grammar::size(n);
            if best.as_ref().map(|b| sz < b.0).unwrap_or(true) {
                best = Some((sz, head(n)));
            }
        }
    });
    best.map(|b| b.1).unwrap_or_else(|| "whole".into())
}

impl Prop for C02Prop {
    fn id(&self) -> &'static str {
        "C02"
    }
    fn rule(&self) -> String {
        "Cases are (evaluator, input, placeholder); the verif_hooks counter (one tick per lexer step, parser step/loop iteration, eval call and evaluator loop iteration) is armed with exactly 4096+256*len(input). Exhaustive: every looping construct (x!, x!!, ilog, w, lambert_w, gcd, lcm, ^, pow, root, shifts, aggregates of 1..40 args) x every argument tuple from the extreme pool (0,1,2,0.5,1.2,1.0000001,170,171,1e18,60- and 400-digit literals,-1,1/0,-1/0,0/0,@ with every placeholder) per evaluator; length-scaling families n=1..256; nesting families: every function nested in itself (min/max also alternating) in the first and in the last argument position and every bracket/operator shell, to every depth that fits 256 characters, each also with a core that fails to parse (empty, dangling operator, bad literal, stray comma/bracket, arity error) and with truncated closers; shells made of an operator pair (a op1 b op2 f(...) right-nested, f(...) op1 a op2 b left-nested, for every operator pair, f in {none, sqrt, abs, max}) and flat alternating chains @ op1 @ op2 @ ..., with placeholders that make every level overflow, fail or change type; then random trees over boundary operands, near-miss mutants and raw strings. non-trivial = at least one value-driven evaluator loop iteration was executed or len>=64; distinct by (evaluator,input,placeholder).".into()
    }
    fn assumptions(&self) -> Vec<String> {
        vec![
            "only loops that carry a verif_hooks tick are counted (all loops in src/ today); loops inside rust_decimal / libm are covered by the 20 s watchdog, which reports inconclusive (exit 2), not a violation".into(),
            "panics are C01's and are excluded here".into(),
        ]
    }
    fn subs(&self, tier: Tier) -> Vec<Sub> {
        vec![
            Sub { name: "loops", kind: SubKind::Enum { count: loop_cases().len() as u64 } },
            Sub { name: "scaling", kind: SubKind::Enum { count: 50 * 256 } },
            Sub { name: "nesting", kind: SubKind::Enum { count: nesting_cases().len() as u64 } },
            Sub { name: "tree", kind: SubKind::Random { cases: tier.pick(300_000, 20_000_000), len: 160 } },
            Sub { name: "mutant", kind: SubKind::Random { cases: tier.pick(200_000, 10_000_000), len: 160 } },
            Sub { name: "raw", kind: SubKind::Random { cases: tier.pick(200_000, 10_000_000), len: 120 } },
        ]
    }
    fn gen_enum(&self, sub: &str, idx: u64, _tier: Tier) -> Option<Case> {
        match sub {
            "loops" => loop_cases().get(idx as usize).cloned(),
            "scaling" => scaling_case(idx),
            "nesting" => nesting_cases().get(idx as usize).cloned(),
            _ => None,
        }
    }
    fn gen(&self, sub: &str, c: &mut dyn Choices) -> Option<Case> {
        let ev = Ev::ALL[c.below(5) as usize];
        let ph = pick_ph(ev, c);
        let mut p = c01::tree_profile(ev);
        // reweight towards the value-driven loops
        let loopy: Vec<_> = p.funcs.iter().filter(|f| ["ilog", "w", "gcd", "lcm"].contains(&f.canon)).copied().collect();
        for _ in 0..4 {
            p.funcs.extend(loopy.iter().copied());
        }
        p.lits.extend(extreme_args(ev).into_iter().filter(|s| s.chars().all(|c| c.is_ascii_digit() || c == '.')));
        let s = match sub {
            "tree" => grammar::render(&gen::gen_expr(&p, c, p.max_depth)),
            "mutant" => {
                let s = grammar::render(&gen::gen_expr(&p, c, 4));
                gen::mutate(ev, &s, c).0
            }
            _ => gen::gen_raw(c, 256),
        };
        if char_len(&s) > 256 {
            return None;
        }
        Some(Case::new(ev, s, ph))
    }
    fn check(&self, _sub: &str, case: &Case, sc: &mut ShardCtx) -> Result<(), Failure> {
        let b = budget_for(&case.input);
        sc.evals(1);
        let m = api::eval_measured(case.ev, &case.input, &case.ph, b);
        let len = char_len(&case.input) as u64;
        match &m.outcome {
            Outcome::Budget(steps) => {
                let construct = localise(case.ev, &case.input, &case.ph);
                return Err(Failure::new(format!("{}/budget/{}", case.ev.name(), construct), format!("<= {} steps (4096+256*{})", b, len), format!("> {} steps", steps - 1)));
            }
            Outcome::Panic(_, _) => {
                sc.exclude("panic(owned by C01)");
                return Ok(());
            }
            _ => {}
        }
        sc.maximum("max_steps", m.steps);
        sc.maximum("max_loop_steps", m.loop_steps);
        if len > 0 {
            sc.maximum("max_steps_per_char_x100", m.steps * 100 / len);
            sc.class(match m.steps / len.max(1) {
                0..=3 => "steps/len<=3",
                4..=7 => "steps/len 4-7",
                8..=15 => "steps/len 8-15",
                16..=63 => "steps/len 16-63",
                _ => "steps/len>=64",
            });
        }
        if m.loop_steps >= 1 || len >= 64 {
            if m.loop_steps >= 1 {
                sc.class("executed-value-loop");
            }
            sc.nontrivial(case.hash(), || serde_json::json!({"evaluator": case.ev.name(), "input": case.input, "placeholder": case.ph.show(), "steps": m.steps, "loop_steps": m.loop_steps, "budget": b, "outcome": m.outcome.show()}));
        }
        Ok(())
    }
}
