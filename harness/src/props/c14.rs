//! C14 — "Every occurrence of `@` evaluates to exactly the placeholder passed to the call -
//! bit-identical for f64 and complex (including NaN, +-inf and -0.0), the same Integer/Float variant
//! for Number, the same value and scale for Decimal - so eval(E, p) equals the evaluation of E with each
//! `@` read as a constant of value p. Syntactically `@` behaves like a constant: it takes part in every
//! operator and function position but not in implicit multiplication."

use super::common::*;
use crate::api::{self, Ev, Outcome, Val};
use crate::choice::Choices;
use crate::gen::{self, Profile};
use crate::grammar;
use crate::refeval;
use crate::run::{Case, Failure, Prop, ShardCtx, Sub, SubKind, Tier};

pub struct C14Prop;
pub static C14: C14Prop = C14Prop;

/// A bracketed expression text intended to evaluate to exactly `p` (verified before use).
pub fn literal_for(p: &Val) -> Option<String> {
    match p {
        Val::F(v) => f64_expr(*v).map(|s| format!("({})", s)),
        Val::I(v) => Some(format!("({})", i64_expr(*v))),
        Val::D(d) => {
            let s = format!("{}", d);
            if d.is_sign_negative() {
                let body = s.trim_start_matches('-');
                Some(format!("(-{})", body))
            } else {
                Some(format!("({})", s))
            }
        }
        Val::NI(v) => Some(format!("({})", i64_expr(*v))),
        Val::NF(v) => {
            if v.is_nan() {
                return Some("(0.0/0.0)".into());
            }
            if v.is_infinite() {
                return Some(if *v > 0.0 { "(1.0/0.0)".into() } else { "(-1.0/0.0)".into() });
            }
            let lit = f64_literal(v.abs())?;
            let lit = if lit.contains('.') { lit } else { format!("{}.0", lit) };
            Some(if v.is_sign_negative() { format!("(-{})", lit) } else { format!("({})", lit) })
        }
        Val::C(a, b) => {
            if !a.is_finite() || !b.is_finite() {
                return None;
            }
            let re = f64_literal(a.abs())?;
            let im = f64_literal(b.abs())?;
            Some(format!("({}{}{}{}i)", if a.is_sign_negative() { "-" } else { "" }, re, if b.is_sign_negative() { "-" } else { "+" }, im))
        }
    }
}

const SWEEP_FORMS: [&str; 14] = ["@", "(@)", "+@", "1/@", "@*@", "@-@", "-@", "0-@", "abs(@)", "sqrt(@)", "@^2", "min(@,1)", "@/@", "1+@*2"];

/// the fixed forms plus `L op @`, `@ op L` for every infix operator and `f(@)`, `f(L,@)`, `f(@,L)` for every function:
/// the placeholder directly behind and in front of every token that could special-case its neighbour
fn sweep_forms(ev: Ev) -> &'static Vec<String> {
    static CELL: std::sync::OnceLock<Vec<Vec<String>>> = std::sync::OnceLock::new();
    let all = CELL.get_or_init(|| {
        Ev::ALL
            .iter()
            .map(|ev| {
                let mut v: Vec<String> = SWEEP_FORMS.iter().map(|s| s.to_string()).collect();
                let ls: Vec<&str> = match ev {
                    Ev::I64 => vec!["2", "3", "10", "(0-3)"],
                    Ev::Cpx => vec!["2", "3", "0.5", "(1+2i)"],
                    _ => vec!["2", "3", "10", "7.5", "(0-3)"],
                };
                for op in crate::vocab::infix(*ev) {
                    for l in &ls {
                        v.push(format!("{}{}@", l, op));
                        v.push(format!("@{}{}", op, l));
                        v.push(format!("-@{}{}", op, l));
                        v.push(format!("{}{}-@", l, op));
                    }
                }
                // flat chains that start with the placeholder: a text-level fast path for "@ followed by terms" re-associates
                for op1 in crate::vocab::infix(*ev) {
                    for op2 in crate::vocab::infix(*ev) {
                        let (a, b, c2) = if *ev == Ev::I64 { ("7", "3", "5") } else { ("0.2", "0.3", "4.35") };
                        v.push(format!("@{}{}{}{}", op1, a, op2, b));
                        v.push(format!("@{}{}{}{}{}{}", op1, a, op2, b, op1, c2));
                        v.push(format!("{}{}@{}{}", a, op1, op2, b));
                    }
                }
                for f in crate::vocab::funcs(*ev) {
                    if f.canon == "ilog" {
                        continue;
                    }
                    match f.arity {
                        crate::vocab::Arity::One => v.push(format!("{}(@)", f.name)),
                        crate::vocab::Arity::Two => {
                            for l in ls.iter().take(3) {
                                v.push(format!("{}({},@)", f.name, l));
                                v.push(format!("{}(@,{})", f.name, l));
                            }
                        }
                        _ => {
                            v.push(format!("{}(@)", f.name));
                            v.push(format!("{}(2,@,3)", f.name));
                        }
                    }
                }
                if crate::vocab::has_fact(*ev) {
                    v.extend(["@!", "-@!", "2^@!", "(@)!"].iter().map(|s| s.to_string()));
                }
                v.extend(["@²", "-@²", "2^@²", "@³"].iter().map(|s| s.to_string()));
                if crate::vocab::has_deg(*ev) {
                    v.extend(["@°", "-@°", "@rad"].iter().map(|s| s.to_string()));
                }
                v
            })
            .collect()
    });
    &all[Ev::ALL.iter().position(|e| *e == ev).unwrap()]
}

/// the boundary pool plus moderate values in every representation (exponents and counts that keep results in range)
fn sweep_pool(ev: Ev) -> Vec<Val> {
    let mut v = ph_pool(ev);
    let extra = [2.0, 3.0, 10.0, 33.0, 39.0, 40.0, 62.0, 63.0, 64.0, 0.5, 1.5, -3.0, -39.0, 0.1, 0.06, 19.99];
    for x in extra {
        match ev {
            Ev::F64 => v.push(Val::F(x)),
            Ev::I64 => {
                if x.fract() == 0.0 {
                    v.push(Val::I(x as i64))
                }
            }
            Ev::Dec => {
                v.push(Val::D(dec(&format!("{}", x))));
                v.push(Val::D(dec(&format!("{:.2}", x))));
            }
            Ev::Cpx => v.push(Val::C(x, 0.0)),
            Ev::Num => {
                v.push(Val::NF(x));
                if x.fract() == 0.0 {
                    v.push(Val::NI(x as i64));
                }
            }
        }
    }
    v
}

pub fn profile(ev: Ev) -> Profile {
    let mut p = Profile::full(ev);
    p.max_depth = 4;
    p.juxt = true;
    p.funcs.retain(|f| f.canon != "ilog");
    p
}

/// A placeholder that compares equal (or nearly so) to `p` but is a different value: other sign of zero,
/// other Decimal scale, other Number variant; failing that, a neighbour.
pub fn twin_of(p: &Val) -> Val {
    match p {
        Val::F(v) if *v == 0.0 => Val::F(-*v),
        Val::F(v) if v.is_nan() => Val::F(f64::from_bits(v.to_bits() ^ (1 << 63))),
        Val::F(v) => Val::F(f64::from_bits(v.to_bits() ^ 1)),
        Val::I(v) => Val::I(v ^ 1),
        Val::D(d) => Val::D({
            let mut t = *d;
            if d.is_zero() {
                t.set_sign_negative(!d.is_sign_negative());
                t
            } else if d.scale() < 27 {
                // same value, two more trailing zeros
                let mut r = *d;
                r.rescale(d.scale() + 2);
                if r == *d && r.scale() != d.scale() {
                    r
                } else {
                    -*d
                }
            } else {
                d.normalize()
            }
        }),
        Val::C(a, b) if *a == 0.0 => Val::C(-*a, *b),
        Val::C(a, b) => Val::C(f64::from_bits(a.to_bits() ^ 1), *b),
        Val::NI(v) if v.unsigned_abs() < (1 << 53) => Val::NF(*v as f64),
        Val::NI(v) => Val::NI(v ^ 1),
        Val::NF(v) if *v == 0.0 => Val::NF(-*v),
        Val::NF(v) if v.fract() == 0.0 && v.abs() < 9e15 => Val::NI(*v as i64),
        Val::NF(v) => Val::NF(f64::from_bits(v.to_bits() ^ 1)),
    }
}

fn unrelated(ev: Ev) -> Val {
    match ev {
        Ev::F64 => Val::F(123.25),
        Ev::I64 => Val::I(-77),
        Ev::Dec => Val::D(dec("-9.125")),
        Ev::Cpx => Val::C(-3.5, 0.125),
        Ev::Num => Val::NF(-0.375),
    }
}

impl Prop for C14Prop {
    fn id(&self) -> &'static str {
        "C14"
    }
    fn rule(&self) -> String {
        "Cases are (evaluator, expression E with 0..n occurrences of @, placeholder p from the boundary pool incl. NaN payloads, +-inf, -0.0, i64 extremes, Decimal values of distinct scales, Integer vs Float). Sub-checks: sweep (14 fixed forms plus L op @, @ op L, -@ op L for every infix operator, f(@), f(L,@), f(@,L) for every function, @ under every postfix form, flat chains @ op1 a op2 b for every operator pair; the pool is extended by moderate values 2…64 in every representation; each form evaluated consecutively on one thread with every pool placeholder in both orders, every answer compared with the literal-substituted form); identity (@, (@), +@ return p identically: to_bits incl. NaN payload / variant / value+scale+sign) for every pool value (exhaustive); substitution (E evaluated with p equals E with every @ replaced by a bracketed literal expression that was first verified to evaluate to exactly p, evaluated with an unrelated placeholder); independence (E without @ gives the same outcome for every placeholder); reference evaluation with @ bound (exact sub-languages); twin re-evaluation (the same text immediately re-evaluated with a placeholder that compares equal or adjacent - other sign of zero, other Decimal scale, other Number variant, neighbouring double - and then with the original again); keyed-pairs (two consecutive calls (t1,p1),(t2,p2) where p2's bits are derived from p1's bits and the standard-library or FNV hashes of t1 and t2 by xor/add/sub, the coincidence a result cache keyed by hash(text) combined with the placeholder bits would need; the second answer must equal the same call made after an unrelated one). non-trivial = >=1 @ under >=1 operator and a placeholder different from the type's default; distinct by (evaluator,E,p).".into()
    }
    fn subs(&self, tier: Tier) -> Vec<Sub> {
        let ident: u64 = Ev::ALL.iter().map(|ev| ph_pool(*ev).len() as u64 * 4).sum();
        let sweep: u64 = Ev::ALL.iter().map(|ev| sweep_forms(*ev).len() as u64).sum();
        vec![
            Sub { name: "identity", kind: SubKind::Enum { count: ident } },
            Sub { name: "sweep", kind: SubKind::Enum { count: sweep } },
            Sub { name: "substitution", kind: SubKind::Random { cases: tier.pick(500_000, 20_000_000), len: 160 } },
            Sub { name: "independence", kind: SubKind::Random { cases: tier.pick(100_000, 5_000_000), len: 160 } },
            Sub { name: "no-juxtaposition", kind: SubKind::Enum { count: 5 * 12 * 14 } },
            Sub { name: "keyed-pairs", kind: SubKind::Random { cases: tier.pick(60_000, 2_000_000), len: 160 } },
        ]
    }
    fn gen_enum(&self, sub: &str, mut idx: u64, _tier: Tier) -> Option<Case> {
        if sub == "no-juxtaposition" {
            // "@ ... takes part in every operator and function position but not in implicit multiplication": @ next to a
            // factor must be rejected in every context, argument positions of variadic functions included
            let ctxs = ["{}", "max(1,{})", "min({},1)", "avg(1,2,{})", "med(1,{},3)", "pow(2,{})", "abs({})", "-{}", "2*{}", "({})", "max({})", "1+{}"];
            let forms = ["@2", "@(3)", "2@", "(3)@", "@abs(4)", "@@", "@⌊2⌋", "3!@", "@2.5", "abs(4)@", "@(3)(4)", "@pi", "@sqrt(4)", "2(3)@"];
            let ev = Ev::ALL[(idx % 5) as usize];
            idx /= 5;
            let c = ctxs[(idx % 12) as usize];
            let f = forms[(idx / 12) as usize % forms.len()];
            let mut case = Case::new(ev, c.replace("{}", f), ph_pool(ev)[3 % ph_pool(ev).len()].clone());
            case.aux = vec!["reject".into()];
            return Some(case);
        }
        if sub == "sweep" {
            for ev in Ev::ALL {
                let f = sweep_forms(ev);
                if (idx as usize) < f.len() {
                    return Some(Case::new(ev, f[idx as usize].clone(), Val::default_for(ev)));
                }
                idx -= f.len() as u64;
            }
            return None;
        }
        for ev in Ev::ALL {
            let pool = ph_pool(ev);
            let n = pool.len() as u64 * 4;
            if idx < n {
                let form = ["@", "(@)", "+@", "((@))"][(idx % 4) as usize];
                return Some(Case::new(ev, form.to_string(), pool[(idx / 4) as usize].clone()));
            }
            idx -= n;
        }
        None
    }
    fn gen(&self, sub: &str, c: &mut dyn Choices) -> Option<Case> {
        if sub == "keyed-pairs" {
            // Two consecutive calls (t1,p1), (t2,p2) whose second placeholder is derived from the first call: the bit
            // patterns are related through the standard library's hash of the two texts (the key a result cache keyed by
            // "hash of the text combined with the placeholder bits" would compute). Random placeholders never hit this.
            let ev = [Ev::F64, Ev::I64, Ev::Num][c.below(3) as usize];
            let mut p = profile(ev);
            p.max_depth = 3;
            let t1 = if c.below(3) == 0 { ["@+1", "3*4", "@", "2*@", "@*@"][c.below(5) as usize].to_string() } else { grammar::render(&gen::gen_expr(&p, c, 3)) };
            let t2 = if c.below(3) == 0 { ["@", "2*@", "@+1", "@-1", "-@", "@/2"][c.below(6) as usize].to_string() } else { format!("{}+@", grammar::render(&gen::gen_expr(&p, c, 2))) };
            if t1 == t2 || char_len(&t1) > 100 || char_len(&t2) > 100 {
                return None;
            }
            let p1 = pick_ph(ev, c);
            let mut case = Case::new(ev, t2, p1);
            case.aux = vec![t1, format!("{}", c.below(4)), format!("{}", c.below(4))];
            return Some(case);
        }
        let ev = Ev::ALL[c.below(5) as usize];
        let mut p = profile(ev);
        let ph = pick_ph(ev, c);
        if sub == "independence" {
            p.ans = false;
        }
        let e = gen::gen_expr(&p, c, p.max_depth);
        let s = grammar::render(&e);
        if char_len(&s) > 200 {
            return None;
        }
        if sub == "substitution" && !s.contains('@') {
            // put one in: a sum with the placeholder keeps the case meaningful
            return Some(Case::new(ev, format!("{}+@", s), ph));
        }
        Some(Case::new(ev, s, ph))
    }
    fn check(&self, sub: &str, case: &Case, sc: &mut ShardCtx) -> Result<(), Failure> {
        let ev = case.ev;
        match sub {
            "sweep" => {
                // the same expression evaluated consecutively (same thread) with every placeholder of the pool, in
                // both orders: each answer must be the one a fresh evaluation with that placeholder gives
                if accept(ev, &case.input).is_none() {
                    return Ok(());
                }
                let pool = sweep_pool(ev);
                let order: Vec<usize> = (0..pool.len()).chain((0..pool.len()).rev()).collect();
                for i in order {
                    let p = &pool[i];
                    let got = match eval_normal(sc, ev, &case.input, p) {
                        Some(o) => o,
                        None => continue,
                    };
                    // reference: the same text with @ replaced by a verified literal, under an unrelated placeholder
                    let want = if case.input == "@" || case.input == "(@)" || case.input == "+@" {
                        Some(Outcome::Ok(p.clone()))
                    } else {
                        match literal_for(p) {
                            Some(l) if matches!(api::eval(ev, &l, &unrelated(ev)), Outcome::Ok(ref v) if v.identical(p)) => eval_normal(sc, ev, &case.input.replace('@', &l), &unrelated(ev)),
                            _ => None,
                        }
                    };
                    if let Some(w) = want {
                        let same = match (&got, &w) {
                            (Outcome::Ok(a), Outcome::Ok(b)) => {
                                if case.input == "@" || case.input == "(@)" || case.input == "+@" {
                                    a.identical(b)
                                } else {
                                    a.same(b)
                                }
                            }
                            (a, b) => a.same(b),
                        };
                        if !same {
                            return Err(Failure::new(format!("{}/sweep", ev.name()), format!("{} (placeholder {})", w.show(), p.show()), format!("{} after evaluating the same expression with other placeholders", got.show())).with_case(Case::new(ev, case.input.clone(), p.clone())));
                        }
                    }
                }
                sc.class("sweep over the placeholder pool");
                sc.nontrivial(case.hash(), || sample(case, "all placeholders consistent"));
                Ok(())
            }
            "identity" => {
                let o = match eval_normal(sc, ev, &case.input, &case.ph) {
                    Some(o) => o,
                    None => return Ok(()),
                };
                let ok = matches!(&o, Outcome::Ok(v) if v.identical(&case.ph));
                if !ok {
                    return Err(Failure::new(format!("{}/identity", ev.name()), format!("Ok({}) identically [{}]", case.ph.show(), case.ph.enc()), format!("{} [{}]", o.show(), o.enc())));
                }
                sc.nontrivial(case.hash(), || sample(case, &o.show()));
                Ok(())
            }
            "keyed-pairs" => {
                use std::hash::{Hash, Hasher};
                let (t1, hk, ck) = match (case.aux.first(), case.aux.get(1).and_then(|s| s.parse::<u32>().ok()), case.aux.get(2).and_then(|s| s.parse::<u32>().ok())) {
                    (Some(a), Some(b), Some(c)) => (a.clone(), b, c),
                    _ => return Ok(()),
                };
                let t2 = &case.input;
                if accept(ev, t2).is_none() || accept(ev, &t1).is_none() {
                    sc.exclude("not accepted by the reference parser");
                    return Ok(());
                }
                let h = |t: &str| -> u64 {
                    let mut hs = std::collections::hash_map::DefaultHasher::new();
                    match hk {
                        0 => t.hash(&mut hs),
                        1 => hs.write(t.as_bytes()),
                        2 => t.to_string().into_bytes().hash(&mut hs),
                        _ => {
                            // FNV-1a, the other hash people write by hand
                            let mut x: u64 = 0xcbf29ce484222325;
                            for b in t.bytes() {
                                x = (x ^ b as u64).wrapping_mul(0x100000001b3);
                            }
                            return x;
                        }
                    }
                    hs.finish()
                };
                let bits = |v: &Val| -> u64 {
                    match v {
                        Val::F(x) | Val::NF(x) => x.to_bits(),
                        Val::I(x) | Val::NI(x) => *x as u64,
                        _ => 0,
                    }
                };
                let (h1, h2, b1) = (h(&t1), h(t2), bits(&case.ph));
                let b2 = match ck {
                    0 => b1 ^ h1 ^ h2,
                    1 => h1.wrapping_add(b1).wrapping_sub(h2),
                    2 => h2.wrapping_sub(h1).wrapping_add(b1),
                    _ => h1.wrapping_sub(b1).wrapping_sub(h2).wrapping_neg(),
                };
                let p2 = match &case.ph {
                    Val::F(_) => Val::F(f64::from_bits(b2)),
                    Val::NF(_) => Val::NF(f64::from_bits(b2)),
                    Val::I(_) => Val::I(b2 as i64),
                    Val::NI(_) => Val::NI(b2 as i64),
                    _ => return Ok(()),
                };
                // reference for the second call: the same call right after an unrelated one
                let _ = eval_normal(sc, ev, "0", &unrelated(ev));
                let want = match eval_normal(sc, ev, t2, &p2) {
                    Some(o) => o,
                    None => return Ok(()),
                };
                let _ = eval_normal(sc, ev, "0", &unrelated(ev));
                let first = match eval_normal(sc, ev, &t1, &case.ph) {
                    Some(o) => o,
                    None => return Ok(()),
                };
                let got = match eval_normal(sc, ev, t2, &p2) {
                    Some(o) => o,
                    None => return Ok(()),
                };
                if !got.same(&want) {
                    return Err(Failure::new(format!("{}/stale-result/keyed-pair", ev.name()), format!("{} (= {:?} with placeholder {})", want.show(), t2, p2.show()), format!("{} right after evaluating {:?} with placeholder {} (= {})", got.show(), t1, case.ph.show(), first.show())));
                }
                sc.class("keyed pair agrees");
                if first.is_ok() && want.is_ok() && !first.same(&want) {
                    sc.nontrivial(case.hash(), || sample(case, &format!("first call {:?} -> {}; second placeholder {} -> {}", t1, first.show(), p2.show(), want.show())));
                }
                Ok(())
            }
            "no-juxtaposition" => {
                if !matches!(grammar::recognise(ev, &case.input), grammar::Verdict::Reject) {
                    sc.exclude("not a rejection case for the reference");
                    return Ok(());
                }
                let o = match eval_normal(sc, ev, &case.input, &case.ph) {
                    Some(o) => o,
                    None => return Ok(()),
                };
                if o.is_ok() {
                    return Err(Failure::new(format!("{}/implicit-product-with-placeholder", ev.name()), "Err (@ takes no part in implicit multiplication)", o.show()));
                }
                sc.class("@ next to a factor rejected");
                sc.nontrivial(case.hash(), || sample(case, "Err"));
                Ok(())
            }
            "independence" => {
                if case.input.contains('@') {
                    return Ok(());
                }
                let a = match eval_normal(sc, ev, &case.input, &case.ph) {
                    Some(o) => o,
                    None => return Ok(()),
                };
                let b = match eval_normal(sc, ev, &case.input, &unrelated(ev)) {
                    Some(o) => o,
                    None => return Ok(()),
                };
                if !a.same(&b) {
                    return Err(Failure::new(format!("{}/placeholder-leaks", ev.name()), format!("{} (placeholder {})", a.show(), case.ph.show()), format!("{} (placeholder {})", b.show(), unrelated(ev).show())));
                }
                sc.class("independence");
                if grammar::recognise(ev, &case.input).accepted().map(grammar::op_count).unwrap_or(0) >= 1 {
                    sc.nontrivial(case.hash(), || sample(case, &a.show()));
                }
                Ok(())
            }
            _ => {
                let e = match accept(ev, &case.input) {
                    Some(e) => e,
                    None => {
                        sc.exclude("not accepted by the reference parser");
                        return Ok(());
                    }
                };
                let n_ans = grammar::count_ans(&e);
                let a = match eval_normal(sc, ev, &case.input, &case.ph) {
                    Some(o) => o,
                    None => return Ok(()),
                };
                // (d) reference evaluation with the placeholder bound
                match refeval::exact_agrees(ev, &e, &case.ph, &a) {
                    Some((false, want)) => {
                        let ph = case.ph.clone();
                        let hd = localise(&e, &mut |n| {
                            let s = grammar::render(n);
                            matches!(refeval::exact_agrees(ev, n, &ph, &api::eval(ev, &s, &ph)), Some((false, _)))
                        });
                        return Err(Failure::new(format!("{}/bound-value/{}", ev.name(), hd), want, a.show()));
                    }
                    Some((true, _)) => sc.class("(d) reference value agrees"),
                    None => sc.class("(d) no exact reference"),
                }
                // (b) substitution by a verified literal
                if n_ans > 0 {
                    match literal_for(&case.ph) {
                        Some(l) => {
                            let q = unrelated(ev);
                            let lo = api::eval(ev, &l, &q);
                            sc.evals(1);
                            if matches!(&lo, Outcome::Ok(v) if v.identical(&case.ph)) {
                                let s2 = case.input.replace('@', &l);
                                if let Some(b) = eval_normal(sc, ev, &s2, &q) {
                                    if !a.same(&b) {
                                        return Err(Failure::new(format!("{}/substitution", ev.name()), format!("{} (= {:?} with placeholder {})", a.show(), case.input, case.ph.show()), format!("{} (= {:?})", b.show(), s2)));
                                    }
                                    sc.class("(b) substitution agrees");
                                }
                            } else {
                                sc.exclude("no exact literal spelling for this placeholder");
                            }
                        }
                        None => sc.exclude("no exact literal spelling for this placeholder"),
                    }
                }
                // (e) the same text again with a "twin" placeholder (numerically equal or close, different representation)
                // and then with p once more: a result remembered under the text, or under a placeholder compared
                // with ==, shows here — for formulas of any length
                if n_ans > 0 {
                    let twin = twin_of(&case.ph);
                    if let Some(t) = eval_normal(sc, ev, &case.input, &twin) {
                        if let Some(l) = literal_for(&twin) {
                            let q = unrelated(ev);
                            if matches!(api::eval(ev, &l, &q), Outcome::Ok(ref v) if v.identical(&twin)) {
                                if let Some(want) = eval_normal(sc, ev, &case.input.replace('@', &l), &q) {
                                    if !t.same(&want) {
                                        return Err(Failure::new(format!("{}/stale-placeholder", ev.name()), format!("{} (placeholder {})", want.show(), twin.show()), format!("{} right after evaluating the same text with placeholder {}", t.show(), case.ph.show())));
                                    }
                                }
                            }
                        }
                    }
                    if let Some(again) = eval_normal(sc, ev, &case.input, &case.ph) {
                        if !again.same(&a) {
                            return Err(Failure::new(format!("{}/stale-placeholder", ev.name()), format!("{} (as on the first call)", a.show()), format!("{} after an intervening call with placeholder {}", again.show(), twin.show())));
                        }
                    }
                    sc.class("(e) twin placeholder re-evaluation agrees");
                }
                if n_ans >= 1 && grammar::op_count(&e) >= 1 && !case.ph.identical(&Val::default_for(ev)) {
                    sc.nontrivial(case.hash(), || sample(case, &a.show()));
                }
                Ok(())
            }
        }
    }
}
