//! C07 — "For expressions over + - * and unary minus on decimal literals, eval_decimal returns exactly
//! the rational result whenever it is representable with a 96-bit coefficient and at most 28 fractional
//! digits (so 0.1+0.2 is exactly 0.3 and 1.10*3 is exactly 3.3); a/b and a%b are exact when the
//! quotient/remainder is so representable and otherwise the quotient is within 1e-27*max(1,|a/b|) of the
//! exact value. Division or remainder by zero and results outside the Decimal range yield Err."

use super::common::*;
use crate::api::{self, Ev, Outcome, Val};
use crate::choice::Choices;
use crate::gen::{self, Profile};
use crate::grammar::{self, BinOp};
use crate::refeval::decr::{self, RD};
use crate::run::{Case, Failure, Prop, ShardCtx, Sub, SubKind, Tier};
use std::sync::OnceLock;

pub struct C07Prop;
pub static C07: C07Prop = C07Prop;

fn pool() -> &'static Vec<String> {
    static CELL: OnceLock<Vec<String>> = OnceLock::new();
    CELL.get_or_init(|| {
        [
            "0", "1", "2", "3", "7", "10", "0.1", "0.2", "0.3", "1.10", "3.30", "0.5", ".5", "5.", "007.500", "0.0000000000000000000000000001", "0.0000000000000000000000000003", "79228162514264337593543950335",
            "79228162514264337593543950334", "39614081257132168796771975168", "7922816251426433759354395033.5", "7.9228162514264337593543950335", "0.3333333333333333333333333333", "1000000000000000",
            "123456789012345678901234567", "1234567890123456789012345678", "99999999999999999999999999999", "0.9999999999999999999999999999", "281474976710656", "4294967296", "1.5", "2.25",
            "18446744073709551616", "4294967296000000000000", "1.0000000000000000000000000001", "2.0000000000000000000000000002", "2.00000000000000000000000002",
            // coefficients around 2^63, 2^64 and i128::MAX/10^19 at scales 18..20, with dividends of 20 digits (64/128-bit
            // fast paths of a remainder or a division)
            "1.7500000000000000001", "1.8446744073709551615", "1.8446744073709551616", "1.7014118346046923174", "1.7014118346046923175", "9.223372036854775807", "9.223372036854775808", "35000000000000000000", "18446744073709551615", "99999999999999999999", "0.17014118346046923175", "17.014118346046923175",
        ]
        .iter()
        .map(|s| s.to_string())
        .collect()
    })
}

fn binary_cases() -> &'static Vec<String> {
    static CELL: OnceLock<Vec<String>> = OnceLock::new();
    CELL.get_or_init(|| {
        let mut v = Vec::new();
        // the largest coefficient at every scale against the matching power of ten: quotients and products that land exactly
        // on (or one unit from) Decimal::MAX from every direction
        let max = "79228162514264337593543950335";
        for k in 1..=28usize {
            let a = if k < 29 { format!("{}.{}", &max[..29 - k], &max[29 - k..]) } else { format!("0.{}", max) };
            let p = format!("0.{}1", "0".repeat(k - 1));
            let q = format!("1{}", "0".repeat(k));
            for (x, y) in [(a.clone(), p.clone()), (a.clone(), q.clone())] {
                v.push(format!("{}/{}", x, y));
                v.push(format!("{}*{}", x, y));
                v.push(format!("-{}/{}", x, y));
            }
            let a1 = format!("{}{}", &a[..a.len() - 1], "4");
            v.push(format!("{}/{}", a1, p));
            v.push(format!("{}*{}", a1, q));
        }
        for a in pool() {
            for b in pool() {
                for op in ["+", "-", "*", "/", "%"] {
                    v.push(format!("{}{}{}", a, op, b));
                    v.push(format!("-{}{}{}", a, op, b));
                    v.push(format!("{}{}(-{})", a, op, b));
                }
                v.push(format!("mod({},{})", a, b));
            }
        }
        v
    })
}

/// random decimal literal: 1..29 significant digits, the point anywhere
/// a op1 b op2 c (also with the right pair bracketed): re-association and fused evaluation (mul_div, (a*c)/b) change
/// which intermediate has to be representable
fn triple_cases() -> &'static Vec<String> {
    static CELL: OnceLock<Vec<String>> = OnceLock::new();
    CELL.get_or_init(|| {
        let small = ["1", "2", "3", "7", "10", "0.1", "0.5", "1.5", "100", "15", "0.3333333333333333333333333333", "0.0000000000000000000000000001", "79228162514264337593543950335", "4294967296", "0.000000000000003", "2.0000000000000000000000000002"];
        let mut v = Vec::new();
        let mut firsts: Vec<String> = pool().clone();
        firsts.extend(["7000000000000000000000000000", "0.000000000000002", "2.0000000000000000000000000002", "100", "15"].iter().map(|s| s.to_string()));
        for a in &firsts {
            for b in small {
                for c in small {
                    for op1 in ["+", "-", "*", "/", "%"] {
                        for op2 in ["+", "-", "*", "/", "%"] {
                            v.push(format!("{}{}{}{}{}", a, op1, b, op2, c));
                        }
                    }
                }
            }
        }
        v
    })
}

pub fn gen_literal(c: &mut dyn Choices) -> String {
    if c.below(8) == 0 {
        return pool()[c.below(pool().len() as u32) as usize].clone();
    }
    let nd = 1 + c.below(29) as usize;
    let mut digits = String::new();
    for i in 0..nd {
        let d = if i == 0 { 1 + c.below(9) } else { c.below(10) };
        digits.push((b'0' + d as u8) as char);
    }
    // scale: 0..=28, biased to small
    let scale = match c.below(4) {
        0 => 0,
        1 => c.below(5) as usize,
        _ => c.below(29) as usize,
    };
    let mut s = if scale == 0 {
        digits
    } else if scale < nd {
        format!("{}.{}", &digits[..nd - scale], &digits[nd - scale..])
    } else {
        format!("0.{}{}", "0".repeat(scale - nd), digits)
    };
    match c.below(12) {
        10 | 11 => {
            // long runs of redundant leading zeros (fixed-size literal buffers, digit counters)
            let k = [3usize, 17, 18, 19, 20, 30, 44, 46, 47, 48, 49, 50, 63, 64, 65, 100, 200][c.below(17) as usize];
            s = format!("{}{}", "0".repeat(k), if s.starts_with('.') { format!("0{}", s) } else { s });
        }
        0 => s = format!("00{}", s),
        1 if s.contains('.') => s.push('0'),
        2 if s.starts_with("0.") => s = s[1..].to_string(),
        _ => {}
    }
    s
}

fn gen_tree(c: &mut dyn Choices, depth: u32) -> grammar::E {
    use grammar::E;
    if depth == 0 || c.below(4) == 0 {
        let lit = E::Lit(gen_literal(c));
        return if c.below(5) == 4 { E::Group(grammar::Br::Round, Box::new(E::Neg(Box::new(lit)))) } else { lit };
    }
    match c.below(8) {
        0 => gen::mk_neg(gen_tree(c, depth - 1)),
        1 => E::Group(grammar::Br::Round, Box::new(gen_tree(c, depth - 1))),
        k => {
            let op = [BinOp::Add, BinOp::Sub, BinOp::Mul][(k % 3) as usize];
            gen::mk_bin(op, gen_tree(c, depth - 1), gen_tree(c, depth - 1))
        }
    }
}

impl Prop for C07Prop {
    fn id(&self) -> &'static str {
        "C07"
    }
    fn rule(&self) -> String {
        "eval_decimal expressions over + - * unary minus (random trees, depth <=5) and single a/b, a%b, mod(a,b) nodes, on decimal literals with 1..29 significant digits, scale 0..28, magnitudes 1e-28..7.9e28 (boundary literals with 27/28/29 digits, 0.1/0.2-style fractions, leading/trailing zeros, .5 and 5. forms); long chains (2..512 operands of + - * / % with 0.1, 1.5, MAX and 1e-28 operands: 0.1+0.1+… 130 terms is exactly 13); exhaustive blocks: 37-literal pool^2 x {+ - * / % mod} with signs; triples a op1 b op2 c (42 x 16 x 16 operands x 25 operator pairs: fused or re-associated evaluation changes which intermediate must be representable). Oracle: exact decimal arithmetic on big integers: every intermediate representable (coefficient < 2^96, scale <= 28) => result must equal the exact value; intermediate beyond the Decimal range => Err; in range but needing rounding => unspecified (counted); division exact when representable else within 1e-27*max(1,|a/b|) (checked by cross-multiplication); zero divisor => Err. non-trivial = a literal with a fractional digit, or >=20 significant digits, or an Err outcome; distinct by input.".into()
    }
    fn assumptions(&self) -> Vec<String> {
        vec!["harness/src/big.rs (hand-written bigint) is trusted; it is self-tested against u128 arithmetic and by multiplication/division identities".into()]
    }
    fn subs(&self, tier: Tier) -> Vec<Sub> {
        vec![
            Sub { name: "binary", kind: SubKind::Enum { count: binary_cases().len() as u64 } },
            Sub { name: "triples", kind: SubKind::Enum { count: triple_cases().len() as u64 } },
            Sub { name: "long", kind: SubKind::Enum { count: super::long::all(true).iter().filter(|x| x.0 == Ev::Dec).count() as u64 } },
            Sub { name: "tree", kind: SubKind::Random { cases: tier.pick(300_000, 15_000_000), len: 400 } },
            Sub { name: "divrem", kind: SubKind::Random { cases: tier.pick(200_000, 10_000_000), len: 100 } },
        ]
    }
    fn gen_enum(&self, sub: &str, idx: u64, _tier: Tier) -> Option<Case> {
        if sub == "long" {
            let s = super::long::all(true).iter().filter(|x| x.0 == Ev::Dec).nth(idx as usize)?.1.clone();
            return Some(Case::new(Ev::Dec, s, Val::D(dec("0"))));
        }
        if sub == "triples" {
            return Some(Case::new(Ev::Dec, triple_cases().get(idx as usize)?.clone(), Val::D(dec("0"))));
        }
        Some(Case::new(Ev::Dec, binary_cases().get(idx as usize)?.clone(), Val::D(dec("0"))))
    }
    fn gen(&self, sub: &str, c: &mut dyn Choices) -> Option<Case> {
        let s = match sub {
            "tree" => {
                let d = 1 + c.below(5);
                grammar::render(&gen_tree(c, d))
            }
            _ => {
                let a = gen_literal(c);
                let b = if c.below(12) == 0 { "0".to_string() } else { gen_literal(c) };
                let (a, b) = (if c.below(4) == 0 { format!("(-{})", a) } else { a }, if c.below(4) == 0 { format!("(-{})", b) } else { b });
                match c.below(3) {
                    0 => format!("{}/{}", a, b),
                    1 => format!("{}%{}", a, b),
                    _ => format!("mod({},{})", a, b),
                }
            }
        };
        if char_len(&s) > 256 {
            return None;
        }
        Some(Case::new(Ev::Dec, s, Val::D(dec("0"))))
    }
    fn check(&self, _sub: &str, case: &Case, sc: &mut ShardCtx) -> Result<(), Failure> {
        let e = match accept(Ev::Dec, &case.input) {
            Some(e) => e,
            None => {
                sc.exclude("not accepted by the reference parser (literal not exactly representable)");
                return Ok(());
            }
        };
        let p = match &case.ph {
            Val::D(p) => *p,
            _ => return Ok(()),
        };
        let want = decr::eval(&e, &p);
        if want == RD::Err {
            // "Division or remainder by zero and results outside the Decimal range yield Err": a panic is not an Err
            let o = eval(sc, Ev::Dec, &case.input, &case.ph);
            if let Outcome::Panic(_, _) = o {
                return Err(Failure::new("decimal/panic-instead-of-err", "Err", o.show()));
            }
        }
        let o = match eval_normal(sc, Ev::Dec, &case.input, &case.ph) {
            Some(o) => o,
            None => return Ok(()),
        };
        match decr::agrees(&want, &o) {
            None => {
                sc.exclude("in range but not exactly representable (unspecified)");
                Ok(())
            }
            Some(true) => {
                sc.class(match &want {
                    RD::Val(_) => "exact value",
                    RD::Quot(_, _) => "quotient within 1e-27",
                    RD::Err => "expected Err",
                    _ => "other",
                });
                let long = case.input.split(|ch: char| !(ch.is_ascii_digit() || ch == '.')).any(|t| t.chars().filter(|c| c.is_ascii_digit()).count() >= 20);
                if case.input.contains('.') || long || o.is_err() {
                    sc.nontrivial(case.hash(), || sample(case, &o.show()));
                }
                Ok(())
            }
            Some(false) => {
                let hd = localise(&e, &mut |n| {
                    let s = grammar::render(n);
                    decr::agrees(&decr::eval(n, &p), &api::eval(Ev::Dec, &s, &case.ph)) == Some(false)
                });
                let w = match &want {
                    RD::Val(v) => format!("Ok({})", v.show()),
                    RD::Quot(a, b) => format!("within 1e-27*max(1,|q|) of {}/{}", a.show(), b.show()),
                    RD::Err => "Err".into(),
                    RD::Unspec(_) => "?".into(),
                };
                let cls = match (&want, &o) {
                    (RD::Err, _) => "value-instead-of-err",
                    (_, Outcome::Err) => "err-instead-of-value",
                    _ => "wrong-value",
                };
                Err(Failure::new(format!("decimal/{}/{}", cls, hd), w, o.show()))
            }
        }
    }
}

#[allow(dead_code)]
fn unused(_: Profile) {}
