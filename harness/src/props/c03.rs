//! C03 — "An evaluator returns Ok only if the whole input (after whitespace removal) is a single
//! complete expression of its grammar; conversely every well-formed expression whose operations are
//! all defined evaluates to Ok. Input with unconsumed trailing tokens, unbalanced or mismatched
//! brackets, a missing operand or argument, a wrong argument count, or an operator, constant or
//! function name that this evaluator does not offer yields Err - never the value of a prefix."
//!
//! Oracle: the independently written recogniser (lex.rs + grammar.rs), three-valued.

use super::c01;
use super::common::*;
use crate::api::{Ev, Outcome, Val};
use crate::choice::Choices;
use crate::gen::{self, Profile};
use crate::grammar::{self, Verdict, E};
use crate::lex;
use crate::refeval::{i64r, numr};
use crate::run::{Case, Failure, Prop, ShardCtx, Sub, SubKind, Tier};
use crate::vocab;

pub struct C03Prop;
pub static C03: C03Prop = C03Prop;

/// Is every operation of the accepted tree defined, decided without the implementation?
/// Some(true): the evaluator must return Ok. None: no claim.
pub fn all_defined(ev: Ev, e: &E, ph: &Val) -> Option<bool> {
    match ev {
        Ev::Cpx => Some(true),
        Ev::F64 | Ev::Num => {
            let mut has_w = false;
            grammar::walk(e, &mut |n| {
                if let E::Call(name, _) = n {
                    if vocab::all_canon(name) == "w" {
                        has_w = true;
                    }
                }
            });
            if has_w {
                None
            } else {
                Some(true)
            }
        }
        Ev::I64 => match ph {
            Val::I(p) => match i64r::eval(e, *p) {
                i64r::RI::Val(_) => Some(true),
                _ => None,
            },
            _ => None,
        },
        Ev::Dec => match ph {
            Val::D(p) => match crate::refeval::decr::eval(e, p) {
                crate::refeval::decr::RD::Val(_) => Some(true),
                _ => None,
            },
            _ => None,
        },
    }
}

fn reject_class(ev: Ev, input: &str) -> &'static str {
    match lex::lex(ev, input) {
        Err(()) => "lexical",
        Ok(ts) => {
            if ts.len() > 24 {
                // the prefix scan is quadratic: only worth it for short inputs
                return "syntax";
            }
            for k in (1..ts.len()).rev() {
                if let Verdict::Accept(_) = grammar::parse_tokens(ev, &ts[..k]) {
                    return "prefix-is-wellformed";
                }
            }
            "syntax"
        }
    }
}

impl Prop for C03Prop {
    fn id(&self) -> &'static str {
        "C03"
    }
    fn rule(&self) -> String {
        "Cases are (evaluator, input, placeholder). Same exhaustive enumerations as C01 (piece sequences <=3 over the full vocabulary + foreign tokens, <=4/5 over class representatives, short strings over the keyword alphabet, keyword neighbourhood), long forms (flat chains of 2..512 operands of every operator with uniform, order-sensitive and boundary operands, 2..512 nested brackets / prefix signs / factorials / calls, juxtaposition chains, argument lists of 2..512 values), near-miss mutants of well-formed trees (delete/insert/duplicate/swap/replace a token, bracket damage, truncation, trailing token, arity change) and well-formed trees; `sequence`: the same kinds of input (with whitespace sprinkled in) evaluated right after a prelude call on the same thread (a rejected prefix, a lexically broken or failing expression, with or without whitespace) - the verdict must not depend on the previous call. Oracle: independent stratified recogniser; Ok requires Accept or DontCare; Accept with all operations defined (complex: always; f64/number: no Lambert W; i64/decimal: reference evaluator yields a value) requires Ok. non-trivial = >=2 reference tokens; distinct by (evaluator,input,placeholder).".into()
    }
    fn assumptions(&self) -> Vec<String> {
        vec!["DontCare inputs (literal-literal adjacency, literals the type cannot hold, deg/rad followed by ^, superscript or !) are counted and not asserted".into()]
    }
    fn subs(&self, tier: Tier) -> Vec<Sub> {
        let mut v: Vec<Sub> = c01::C01.subs(tier).into_iter().filter(|s| ["tokens3", "classreps", "chars", "keywords", "arity"].contains(&s.name)).collect();
        v.push(Sub { name: "long", kind: SubKind::Enum { count: super::long::all(true).len() as u64 } });
        v.push(Sub { name: "mutant", kind: SubKind::Random { cases: tier.pick(600_000, 30_000_000), len: 160 } });
        v.push(Sub { name: "wellformed", kind: SubKind::Random { cases: tier.pick(400_000, 20_000_000), len: 160 } });
        v.push(Sub { name: "sequence", kind: SubKind::Random { cases: tier.pick(300_000, 10_000_000), len: 200 } });
        v
    }
    fn gen_enum(&self, sub: &str, idx: u64, tier: Tier) -> Option<Case> {
        if sub == "long" {
            let (ev, s) = super::long::all(true).get(idx as usize)?.clone();
            return Some(Case::new(ev, s, Val::default_for(ev)));
        }
        c01::C01.gen_enum(sub, idx, tier)
    }
    fn gen(&self, sub: &str, c: &mut dyn Choices) -> Option<Case> {
        let ev = Ev::ALL[c.below(5) as usize];
        let ph = pick_ph(ev, c);
        let mut p = Profile::full(ev);
        p.max_depth = 4;
        let s = grammar::render(&gen::gen_expr(&p, c, p.max_depth));
        let s = if sub == "mutant" {
            let mut s = s;
            let k = 1 + c.below(2);
            for _ in 0..k {
                s = gen::mutate(ev, &s, c).0;
            }
            s
        } else {
            s
        };
        if char_len(&s) > 256 {
            return None;
        }
        if sub == "sequence" {
            // the verdict on an input must not depend on the call before it: a prelude (usually rejected, often a prefix of
            // something well-formed, with or without whitespace) is evaluated first on the same thread
            let ws = |t: String, c: &mut dyn Choices| -> String {
                if c.below(2) == 0 {
                    return t;
                }
                let mut cs: Vec<char> = t.chars().collect();
                for _ in 0..(1 + c.below(3)) {
                    let at = c.below(cs.len() as u32 + 1) as usize;
                    cs.insert(at, [' ', ' ', '\t', '\u{a0}'][c.below(4) as usize]);
                }
                cs.into_iter().collect()
            };
            let other = grammar::render(&gen::gen_expr(&p, c, 3));
            let prelude = match c.below(6) {
                0 => gen::mutate(ev, &other, c).0,
                1 => {
                    let cs: Vec<char> = other.chars().collect();
                    cs[..c.below(cs.len() as u32 + 1) as usize].iter().collect()
                }
                2 => format!("{}+{}", other, ["1.2.3", "1..5", "3.14.15", "#", "(", "2)"][c.below(6) as usize]),
                3 => format!("{}/0+w(-5)", other),
                4 => format!("({}", other),
                _ => other,
            };
            let (prelude, input) = (ws(prelude, c), if c.below(3) == 0 { ws(gen::mutate(ev, &s, c).0, c) } else { ws(s, c) });
            let mut case = Case::new(ev, input, ph);
            case.aux = vec![prelude];
            return Some(case);
        }
        Some(Case::new(ev, s, ph))
    }
    fn check(&self, sub: &str, case: &Case, sc: &mut ShardCtx) -> Result<(), Failure> {
        let ev = case.ev;
        if sub == "sequence" {
            if let Some(prelude) = case.aux.first() {
                let _ = eval_normal(sc, ev, prelude, &case.ph);
            }
        }
        let verdict = grammar::recognise(ev, &case.input);
        let o = match eval_normal(sc, ev, &case.input, &case.ph) {
            Some(o) => o,
            None => return Ok(()),
        };
        let ntok = lex::lex(ev, &case.input).map(|t| t.len()).unwrap_or(0);
        match &verdict {
            Verdict::DontCare(why) => {
                sc.class(&format!("dontcare:{}", why));
                return Ok(());
            }
            Verdict::Reject => {
                let cls = reject_class(ev, &case.input);
                sc.class(&format!("rejected-{}", cls));
                if let Outcome::Ok(v) = &o {
                    return Err(Failure::new(format!("{}/ok-on-malformed/{}", ev.name(), cls), "Err (the input is not one complete expression)", format!("Ok({})", v.show())));
                }
            }
            Verdict::Accept(e) => {
                sc.class("accepted-wellformed");
                match all_defined(ev, e, &case.ph) {
                    Some(true) => {
                        sc.class("accepted-and-defined");
                        if o.is_err() {
                            let ph = case.ph.clone();
                            let hd = localise(e, &mut |n| {
                                let s = grammar::render(n);
                                all_defined(ev, n, &ph) == Some(true) && crate::api::eval(ev, &s, &ph).is_err()
                            });
                            return Err(Failure::new(format!("{}/err-on-wellformed/{}", ev.name(), hd), "Ok(_) (well-formed, every operation defined)", "Err"));
                        }
                    }
                    _ => sc.class("accepted-definedness-undecided"),
                }
            }
        }
        if ntok >= 2 {
            sc.nontrivial(case.hash(), || sample(case, &format!("{} / recogniser: {}", o.show(), match &verdict { Verdict::Accept(_) => "Accept", Verdict::Reject => "Reject", Verdict::DontCare(_) => "DontCare" })));
        }
        let _ = numr::N::I(0);
        Ok(())
    }
}
