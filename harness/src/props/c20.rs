//! C20 — "For every context C with a hole in operand or argument position and every expression E that
//! evaluates to Ok(v), evaluating C[(E)] gives the same outcome - bit for bit, or Err in both - as
//! evaluating C[@] with placeholder v. Evaluation of a subexpression is therefore independent of where
//! it occurs, and results carry all the information the enclosing operation sees."

use super::common::*;
use crate::api::{Ev, Outcome, Val};
use crate::choice::Choices;
use crate::gen::{self, Profile};
use crate::grammar::{self, E};
use crate::run::{Case, Failure, Prop, ShardCtx, Sub, SubKind, Tier};

pub struct C20Prop;
pub static C20: C20Prop = C20Prop;

fn ctx_profile(ev: Ev) -> Profile {
    let mut p = Profile::full(ev);
    p.ans = false;
    p.max_depth = 4;
    p.funcs.retain(|f| f.canon != "ilog");
    p
}

fn sub_profile(ev: Ev) -> Profile {
    let mut p = Profile::full(ev);
    p.lits = boundary_lits(ev).into_iter().filter(|s| s.len() <= 24).collect();
    p.max_depth = 3;
    p.funcs.retain(|f| f.canon != "ilog");
    p
}

/// replace the k-th leaf (literal or constant) of the tree by `@`
fn punch_hole(e: &E, k: usize) -> E {
    let mut leaves = Vec::new();
    let mut idx = 0usize;
    grammar::walk(e, &mut |n| {
        if matches!(n, E::Lit(_) | E::Const(_)) {
            leaves.push(idx);
        }
        idx += 1;
    });
    if leaves.is_empty() {
        return E::Ans;
    }
    let target = leaves[k % leaves.len()];
    let mut counter = 0;
    grammar::map_nodes(e, &mut counter, &mut |i, node| if i == target { E::Ans } else { node })
}

/// Expressions that evaluate to values an implementation might special-case, spelled so that they are not literals.
fn special_subexprs(ev: Ev) -> Vec<&'static str> {
    match ev {
        Ev::I64 => vec!["1+1", "4/2", "3-1", "1-1", "2-1", "5*2", "1-2", "2*5-7", "8/4", "6/2"],
        Ev::Cpx => vec!["1+1", "4/2", "3-1", "1-1", "2-1", "5*2", "1-2", "1/2", "i*i", "2i/i", "0.25+0.25", "1.5+1.5"],
        _ => vec!["1+1", "4/2", "3-1", "1-1", "2-1", "5*2", "1-2", "1/2", "0.25+0.25", "1.5+1.5", "2*0.5", "0*1", "e*1", "pi*1", "-(1-1)", "1/(1-1)"],
    }
}

fn other_args(ev: Ev) -> Vec<String> {
    match ev {
        Ev::I64 => ["0", "1", "2", "3", "9", "64", "(-2)", "9223372036854775807", "4611686018427387904", "27"].iter().map(|s| s.to_string()).collect(),
        Ev::Dec => ["0", "1", "2", "0.5", "9.26", "2921", "(-2)", "(-0.5)", "14.77", "27", "100", "0.1"].iter().map(|s| s.to_string()).collect(),
        Ev::Cpx => ["0", "1", "2", "0.5", "9.26", "2921", "(-2)", "(1+2i)", "(-0)", "14.77", "i", "(0.5-2i)"].iter().map(|s| s.to_string()).collect(),
        _ => ["0", "(-0)", "1", "2", "0.5", "9.26", "2921", "(-2)", "(1/0)", "(-1/0)", "(0/0)", "14.77", "27", "100", "0.1", "9007199254740993", "(-0.5)"].iter().map(|s| s.to_string()).collect(),
    }
}

/// (context with one @, subexpression) pairs, exhaustive over: every function x every argument position x special
/// subexpressions x companion arguments; every unary context x every binary operation on the boundary pool.
fn targeted() -> &'static Vec<Case> {
    static CELL: std::sync::OnceLock<Vec<Case>> = std::sync::OnceLock::new();
    CELL.get_or_init(|| {
        let mut out = Vec::new();
        let mut push = |ev: Ev, ctx: String, sub: String| {
            let mut c = Case::new(ev, ctx, Val::default_for(ev));
            c.aux = vec![sub];
            out.push(c);
        };
        for ev in Ev::ALL {
            let specials = special_subexprs(ev);
            let others = other_args(ev);
            let fs = crate::vocab::funcs(ev);
            // (a) hole in every argument position of every function, special values as the subexpression
            for f in &fs {
                for e in &specials {
                    match f.arity {
                        crate::vocab::Arity::One => push(ev, format!("{}(@)", f.name), e.to_string()),
                        crate::vocab::Arity::Two => {
                            for x in &others {
                                push(ev, format!("{}(@,{})", f.name, x), e.to_string());
                                push(ev, format!("{}({},@)", f.name, x), e.to_string());
                            }
                        }
                        _ => {
                            for x in others.iter().take(5) {
                                push(ev, format!("{}(@,{})", f.name, x), e.to_string());
                                push(ev, format!("{}({},@,1)", f.name, x), e.to_string());
                            }
                        }
                    }
                }
            }
            // operators: hole on each side
            for op in crate::vocab::infix(ev) {
                for e in &specials {
                    for x in &others {
                        push(ev, format!("@{}{}", op, x), e.to_string());
                        push(ev, format!("{}{}@", x, op), e.to_string());
                    }
                }
            }
            // (c) aggregates nested in aggregates over zeros of every kind (flattening / re-association of nested lists)
            let zeros: Vec<&str> = match ev {
                Ev::I64 => vec!["0", "1", "(-1)", "(0*1)"],
                Ev::Dec => vec!["0", "0.0", "(-0)", "(-0.00)", "1", "(-1)"],
                Ev::Cpx => vec![],
                _ => vec!["0", "0.0", "(-0.0)", "(-0)", "1", "(-1)", "(0/0)"],
            };
            let aggs: Vec<&str> = fs.iter().filter(|f| matches!(f.arity, crate::vocab::Arity::Var1 | crate::vocab::Arity::Var0)).map(|f| f.name).collect();
            for f in &aggs {
                for g in &aggs {
                    for x in &zeros {
                        for y in &zeros {
                            for z in &zeros {
                                push(ev, format!("{}({},@)", f, x), format!("{}({},{})", g, y, z));
                                push(ev, format!("{}(@,{})", f, x), format!("{}({},{})", g, y, z));
                                push(ev, format!("1/{}({},@,5)", f, x), format!("{}({},{})", g, y, z));
                            }
                        }
                    }
                }
            }
            // (c') long literal lists with ties in different representations around the hole (a sort or selection that takes
            // another path for literal-only lists sees @ as a literal and (E) as a compound argument)
            let (tie, subs): (Vec<&str>, Vec<&str>) = match ev {
                Ev::Num => (vec!["2", "2.0"], vec!["1.5+0.5", "1+1", "4/2", "2.5-0.5"]),
                Ev::Dec => (vec!["2", "2.0", "2.00"], vec!["1.5+0.5", "1+1", "1.00+1.00"]),
                Ev::F64 => (vec!["0", "(-0)"], vec!["0*(-1)", "1-1", "(-1)*0"]),
                _ => (vec![], vec![]),
            };
            if !tie.is_empty() {
                for f in &aggs {
                    for n in [9usize, 17, 21, 33, 35, 65] {
                        for pos in [0usize, n / 2, n - 1] {
                            for shift in 0..tie.len() {
                                let list: Vec<String> = (0..n).map(|i| if i == pos { "@".to_string() } else { tie[(i + shift) % tie.len()].to_string() }).collect();
                                for e in &subs {
                                    push(ev, format!("{}({})", f, list.join(",")), e.to_string());
                                    push(ev, format!("{}({})*9007199254740993", f, list.join(",")), e.to_string());
                                }
                            }
                        }
                    }
                }
            }
            // (b) every unary context over every binary operation on boundary operands (fusion / peephole rewrites
            // that look through the brackets at the operation underneath)
            let mut unary: Vec<String> = fs.iter().filter(|f| f.arity == crate::vocab::Arity::One).map(|f| format!("{}(@)", f.name)).collect();
            unary.extend(["-@", "@²", "(@)"].iter().map(|s| s.to_string()));
            if crate::vocab::has_fact(ev) {
                unary.push("@!".into());
            }
            if crate::vocab::has_floor_brackets(ev) {
                unary.push("⌊@⌋".into());
                unary.push("⌈@⌉".into());
            }
            if crate::vocab::has_deg(ev) {
                unary.push("@°".into());
            }
            let operands: Vec<String> = match ev {
                Ev::I64 => ["0", "1", "2", "3", "7", "(-1)", "(-7)", "9007199254740993", "9223372036854775807", "4611686018427387904", "3037000500"].iter().map(|s| s.to_string()).collect(),
                Ev::Num => ["0", "1", "2", "3", "7", "(-1)", "(-7)", "2.0", "0.5", "2.5", "9007199254740993", "9007199254740995", "9223372036854775807", "4611686018427387904", "9007199254740994.0"].iter().map(|s| s.to_string()).collect(),
                Ev::Dec => ["0", "1", "2", "3", "7", "(-1)", "(-7)", "0.5", "2.50", "0.1", "79228162514264337593543950335", "0.0000000000000000000000000001"].iter().map(|s| s.to_string()).collect(),
                Ev::Cpx => ["0", "1", "2", "(-1)", "0.5", "i", "(1+2i)", "(-0.5-2i)", "3"].iter().map(|s| s.to_string()).collect(),
                Ev::F64 => ["0", "(-0)", "1", "2", "3", "7", "(-1)", "(-7)", "0.5", "2.5", "0.1", "9007199254740993", "(1/0)", "1e"].iter().filter(|s| **s != "1e").map(|s| s.to_string()).collect(),
            };
            for u in &unary {
                for a in &operands {
                    for b in &operands {
                        for op in crate::vocab::infix(ev) {
                            push(ev, u.clone(), format!("{}{}{}", a, op, b));
                        }
                    }
                }
            }
        }
        out
    })
}

/// Multi-level shapes an implementation might recognise and evaluate in one step (euclidean norm, expm1, log1p,
/// fused multiply-add, modular power, midpoint, cancellations ...), over boundary operands, split at every inner node.
/// A hole at an inner node keeps the values and destroys the shape.
fn idioms() -> &'static Vec<Case> {
    static CELL: std::sync::OnceLock<Vec<Case>> = std::sync::OnceLock::new();
    CELL.get_or_init(|| {
        const T: &[&str] = &[
            "sqrt(X^2+Y^2)", "sqrt(X²+Y²)", "sqrt(X*X+Y*Y)", "(X^2+Y^2)^0.5", "sqrt(pow(X,2)+pow(Y,2))", "sqrt(X^2+Y^2+Z^2)", "sqrt(X^2-Y^2)", "abs(X^2+Y^2)",
            "exp(X)-1", "e^X-1", "ln(1+X)", "ln(X+1)", "log(1+X)", "X*Y+Z", "Z+X*Y", "X*Y-Z", "Z-X*Y", "X^Y%Z", "pow(X,Y)%Z", "X*Y%Z", "(X+Y)%Z", "(X+Y)/2", "(X+Y)/2.0", "(X+Y)/Z", "X/Y*Y", "X*Y/Y", "X*Y/Z",
            "X-X+Y", "X+Y-X", "X+Y-Y", "X*X", "X/X*Y", "sqrt(X)^2", "sqrt(X^2)", "sqrt(X²)", "abs(X)^2", "abs(X^2)", "abs(-X)", "-(-X)", "-(X-Y)", "1/(1/X)", "1/(X/Y)", "X^(-1)", "X^(0-1)", "X^(1/2)", "X^(1/3)", "X^(Y/Z)", "(X^Y)^Z", "X^(Y*Z)", "X^(Y+Z)", "X^Y*X^Z",
            "cbrt(X^3)", "ln(e^X)", "ln(exp(X))", "exp(ln(X))", "e^ln(X)", "10^log(X)", "log(10^X)", "2^log(X,2)", "log(2^X,2)", "ln(X)/ln(Y)", "log(X)/log(Y)", "ln(X*Y)", "ln(X/Y)", "ln(X^Y)", "exp(X+Y)", "exp(X)*exp(Y)", "exp(X*Y)",
            "sin(X)/cos(X)", "sin(X)^2+cos(X)^2", "cosh(X)^2-sinh(X)^2", "atan(Y/X)", "atan(X/Y)", "sin(X+Y)", "sin(X*pi)", "cos(X*pi)", "sin(X°)", "cos(2*X)", "sin(asin(X))", "asin(sin(X))", "tan(atan(X))",
            "floor(X/Y)", "ceil(X/Y)", "trunc(X/Y)", "round(X/Y)", "floor(X+0.5)", "floor(X*Y)", "round(X*Y)", "X-Y*floor(X/Y)", "X/Y*Y+X%Y", "X-X/Y*Y", "X*Y/gcd(X,Y)", "gcd(X*Z,Y*Z)", "gcd(X+Y,Y)", "lcm(X,Y)*gcd(X,Y)",
            "(X+1)!/X!", "X!/(X-1)!", "(X+Y)!", "(X-Y)!", "(X*Y)!", "min(X,Y)+max(X,Y)", "max(X,-X)", "min(max(X,Y),Z)", "max(min(X,Y),Z)", "avg(X,Y)*2", "avg(X+Y,Z)", "med(X*Y,Z,X)", "max(X+Y,Z)-min(X-Y,Z)",
            "(X<<Y)>>Y", "(X>>Y)<<Y", "X&Y|Z", "X|Y&Z", "X&(X-1)", "X&(0-X)", "X|(X+1)", "(X|Y)-(X&Y)", "(X+Y)<<1", "1<<(X+Y)", "(X*2)>>1", "X*2^Y", "X/2^Y", "2^(X+Y)", "2^X*2^Y", "(0-1)^X", "(-1)^(X+Y)",
            "sqrt(X)*sqrt(Y)", "sqrt(X*Y)", "sqrt(X)/sqrt(Y)", "sqrt(X/Y)", "sqrt(X+Y)", "sqrt(X-Y)", "X%Y%Z", "(X%Y+Y)%Y", "(0-X)%Y", "(X-Y)%Z", "(X*Y)%Y", "X*(0-1)", "(0-1)*X", "0-X", "0*X+Y", "X*0+Y", "(X-X)*Y", "X*1+Y", "X/1+Y", "X^1+Y", "X^0+Y", "(X+0)*Y",
            "sgn(X)*abs(X)", "sgn(X*Y)", "abs(X)/X", "abs(X*Y)", "abs(X-Y)", "abs(X)-abs(Y)", "floor(X)+ceil(X)", "X-floor(X)", "X-trunc(X)", "floor(-X)", "ceil(-X)", "round(-X)", "round(X+Y)", "trunc(X*Y)", "floor(X)/Y", "floor(floor(X)/Y)",
            "log(X^2,3)", "log(X²,Y)", "log(pow(X,2),2)", "lb(X^2)", "ln(X²)", "ln(X^4)", "sqrt(X^4)", "sqrt((X-Y)^2)", "log(X^Y,Z)", "abs(X^3)", "cbrt(X^3)", "root(2,X^2)", "exp(2*ln(X))", "ln(abs(X))", "log(abs(X),2)",
            "w(X)*w(Y)", "1/w(X)+1/w(Y)", "w(X)-w(Y)", "atan2(w(X),w(Y))", "w(X)*(w(Y))", "w(X)+w(X)", "sqrt(X)*sqrt(Y)", "sin(X)*sin(Y)", "exp(X)/exp(Y)", "ln(X)-ln(Y)", "X!/Y!", "abs(X)*abs(Y)", "floor(X)*ceil(Y)",
            "w(X*e^X)", "w(X)*e^w(X)", "ilog(X^Y,X)", "ilog(X*Y,Y)", "X^ilog(Y,X)", "pow(X,Y)*pow(X,Z)", "root(X^Y,Y)", "root(X,Y)^Y", "(X+Y)²", "(X-Y)²", "(X*Y)²", "(X+Y)³", "X²-Y²", "(X+Y)*(X-Y)", "X²+2*X*Y+Y²", "(X+Y)°", "(X*Y)rad",
            "X(Y+Z)", "(X+Y)(X-Y)", "2(X+Y)", "(X+Y)pi", "-X^2", "-(X^2)", "(-X)^2", "-X²", "-(X²)", "(-X)²", "-X!", "-(X!)", "(X!)!", "(X²)!", "(X!)²",
        ];
        let mut out: Vec<Case> = Vec::new();
        let mut seen = std::collections::HashSet::new();
        for ev in Ev::ALL {
            let xs: Vec<&str> = match ev {
                Ev::I64 => vec!["0", "1", "2", "3", "7", "(0-3)", "20", "63", "2147483648", "3000000000", "3037000499", "3037000500", "9007199254740993", "4611686018427387904", "9223372036854775807", "(0-9223372036854775807-1)"],
                Ev::Num => vec!["0", "1", "2", "3", "2.0", "0.5", "(0-7)", "20", "0.0", "(-0.0)", "2147483648", "3037000499", "3037000500", "9007199254740993", "9223372036854775807", "(0-9223372036854775807-1)", "9007199254740994.0", "170", "(1/0.0)"],
                Ev::F64 => vec!["0", "(-0)", "1", "2", "3", "0.5", "(0-7)", "20", "0.1", "0.000000001", "9007199254740993", "94906267", "170", "709", "(10^308)", "(1/0)", "(0/0)"],
                Ev::Dec => vec!["0", "1", "2", "3", "0.5", "(0-7)", "20", "0.1", "3.00", "27", "1000000000000000", "281474976710656", "79228162514264337593543950335", "0.0000000000000000000000000001"],
                Ev::Cpx => vec!["0", "1", "2", "(0-1)", "0.5", "i", "(1+2i)", "(-0.5-2i)", "3", "(3+4i)", "20"],
            };
            let zs: Vec<&str> = match ev {
                Ev::I64 => vec!["1", "2", "7", "9223372036854775807"],
                Ev::Cpx => vec!["1", "2", "i"],
                _ => vec!["1", "2", "0.5", "7"],
            };
            for t in T {
                let (hy, hz) = (t.contains('Y'), t.contains('Z'));
                for x in &xs {
                    for y in if hy { xs.clone() } else { vec![""] } {
                        for z in if hz { zs.clone() } else { vec![""] } {
                            let text = t.replace('X', x).replace('Y', y).replace('Z', z);
                            let tree = match accept(ev, &text) {
                                Some(e) => e,
                                None => continue,
                            };
                            let n = grammar::size(&tree);
                            for k in 1..n {
                                let mut picked: Option<E> = None;
                                let mut counter = 0;
                                let ctx = grammar::map_nodes(&tree, &mut counter, &mut |i, node| {
                                    if i == k {
                                        picked = Some(node);
                                        E::Ans
                                    } else {
                                        node
                                    }
                                });
                                let sub = match picked {
                                    Some(E::Lit(_)) | Some(E::Const(_)) | None => continue,
                                    Some(E::Group(_, inner)) if matches!(*inner, E::Lit(_) | E::Const(_)) => continue,
                                    Some(sx) => sx,
                                };
                                if grammar::op_count(&sub) == 0 {
                                    continue;
                                }
                                let (c, sb) = (grammar::render(&ctx), grammar::render(&sub));
                                if seen.insert((ev, c.clone(), sb.clone())) {
                                    let mut case = Case::new(ev, c, Val::default_for(ev));
                                    case.aux = vec![sb];
                                    out.push(case);
                                }
                            }
                        }
                    }
                }
            }
        }
        out
    })
}

impl Prop for C20Prop {
    fn id(&self) -> &'static str {
        "C20"
    }
    fn rule(&self) -> String {
        "Exhaustive targeted block: (a) the hole in every argument position of every function and on each side of every operator, with the subexpression ranging over non-literal spellings of values an implementation might special-case (0, 1, 2, -1, 0.5, 10, e, pi, inf, -0) and companion arguments from a boundary list; (b) every unary context (every arity-1 function, -@, @², @!, ⌊@⌋, ⌈@⌉, @°) over every binary operation a op b on a boundary operand list (values beyond 2^53, halves, scaled decimals). (c) every aggregate nested in every aggregate over zeros of every kind (0, 0.0, -0.0, Integer vs Float). (d) `idioms`: ~250 multi-level shapes an implementation might evaluate in one step (sqrt(X^2+Y^2), exp(X)-1, X*Y+Z, X^Y%Z, (X+Y)/2, X/Y*Y, ln(X)/ln(Y), (X<<Y)>>Y, -X^2 ...) over boundary operands (incl. the largest i64 whose square fits, 2^53+1, inf, NaN, -0, scaled decimals), split at every inner node. Then `split`: one random expression over boundary operands split at a random inner node into (C, E); and random triples (C, E, q): C a well-formed expression with exactly one @ in operand or argument position (a random leaf of a random tree: operator sides, prefix/postfix operands, every argument index incl. aggregates, under brackets, base or exponent), E a well-formed expression of the same evaluator over boundary operands (NaN, +-inf, -0.0, Float vs Integer, scaled Decimals, i64 extremes via its own @ bound to q). Three public calls: v = eval(E,q); if Ok(v): eval(C[@:=(E)], q) must equal eval(C, v) - same Ok bits (NaNs identified, Number variant, Decimal value and scale) or Err in both. non-trivial = E has >=1 operator, C has >=1 operator, v is not the type's default; distinct by (evaluator,C,E,q).".into()
    }
    fn subs(&self, tier: Tier) -> Vec<Sub> {
        vec![
            Sub { name: "targeted", kind: SubKind::Enum { count: targeted().len() as u64 } },
            Sub { name: "chains", kind: SubKind::Enum { count: 5 * 2 * 699 } },
            Sub { name: "idioms", kind: SubKind::Enum { count: idioms().len() as u64 } },
            Sub { name: "compose", kind: SubKind::Random { cases: tier.pick(500_000, 20_000_000), len: 200 } },
            Sub { name: "split", kind: SubKind::Random { cases: tier.pick(400_000, 20_000_000), len: 200 } },
        ]
    }
    fn gen_enum(&self, sub: &str, idx: u64, _tier: Tier) -> Option<Case> {
        if sub == "idioms" {
            return idioms().get(idx as usize).cloned();
        }
        if sub == "chains" {
            // the hole at the head (or the tail) of a flat chain of every length 2..700: a depth limit that counts the
            // subexpression's own height is crossed by C[(E)] one term earlier than by C[@]
            let ev = Ev::ALL[(idx % 5) as usize];
            let head = (idx / 5) % 2 == 0;
            let n = 2 + (idx / 10) as usize;
            let ctx = if head { format!("@{}", "+1".repeat(n)) } else { format!("{}@", "1+".repeat(n)) };
            let mut case = Case::new(ev, ctx, Val::default_for(ev));
            case.aux = vec![["2*3", "(1+1)*(2+1)", "2^2+2"][n % 3].to_string()];
            return Some(case);
        }
        targeted().get(idx as usize).cloned()
    }
    fn gen(&self, sub: &str, c: &mut dyn Choices) -> Option<Case> {
        let ev = Ev::ALL[c.below(5) as usize];
        let q = pick_ph(ev, c);
        if sub == "split" {
            // one random expression over boundary operands, split at a random inner node: the subexpression and its
            // context keep the shapes real expressions have (sums of squares under a root, a quotient under floor …)
            let mut p = sub_profile(ev);
            p.ans = false;
            p.max_depth = 5;
            let t = gen::gen_expr(&p, c, p.max_depth);
            let n = grammar::size(&t);
            let k = c.below(n as u32) as usize;
            let mut picked: Option<E> = None;
            let mut counter = 0;
            let ctx = grammar::map_nodes(&t, &mut counter, &mut |i, node| {
                if i == k {
                    picked = Some(node);
                    E::Ans
                } else {
                    node
                }
            });
            let s = picked?;
            if matches!(s, E::Lit(_) | E::Const(_)) {
                return None;
            }
            let (ctx, s) = (grammar::render(&ctx), grammar::render(&s));
            if char_len(&ctx) + char_len(&s) > 300 {
                return None;
            }
            let mut case = Case::new(ev, ctx, q);
            case.aux = vec![s];
            return Some(case);
        }
        if ev != Ev::Cpx && c.below(8) == 0 {
            // a long aggregate list of values with many ties across representations, the hole somewhere in it
            let (vals, subs): (Vec<&str>, Vec<&str>) = match ev {
                Ev::Num => (vec!["2", "2.0", "1.5", "3", "3.5", "1", "4", "2", "2.0", "9007199254740993", "9007199254740992.0"], vec!["1.5+0.5", "1+1", "4/2", "2.5-0.5", "3.0*1", "0.5+1"]),
                Ev::Dec => (vec!["2", "2.0", "2.00", "1.5", "3", "3.50", "1", "4"], vec!["1.5+0.5", "1+1", "1.00+1.00", "7/2"]),
                Ev::I64 => (vec!["2", "3", "1", "4", "2", "(0-2)"], vec!["1+1", "4/2", "6/2"]),
                _ => (vec!["2", "1.5", "3", "3.5", "1", "4", "0", "(-0)", "(0/0)"], vec!["1.5+0.5", "0*(-1)", "1-1", "4/2"]),
            };
            let aggs: Vec<&str> = if ev == Ev::I64 { vec!["med", "median", "min", "max", "avg", "gcd", "lcm"] } else { vec!["med", "median", "min", "max", "avg"] };
            let n = [9usize, 21, 33, 35, 65, 99][c.below(6) as usize];
            let pos = c.below(n as u32) as usize;
            let list: Vec<String> = (0..n).map(|i| if i == pos { "@".to_string() } else { vals[c.below(vals.len() as u32) as usize].to_string() }).collect();
            let f = aggs[c.below(aggs.len() as u32) as usize];
            let ctx = match c.below(3) {
                0 => format!("{}({})", f, list.join(",")),
                1 => format!("9007199254740993*{}({})", f, list.join(",")),
                _ => format!("1/{}({})", f, list.join(",")),
            };
            let mut case = Case::new(ev, ctx, q);
            case.aux = vec![subs[c.below(subs.len() as u32) as usize].to_string()];
            return Some(case);
        }
        let cp = ctx_profile(ev);
        let tree = gen::gen_expr(&cp, c, cp.max_depth);
        let k = c.below(64) as usize;
        let ctx = grammar::render(&punch_hole(&tree, k));
        let sp = sub_profile(ev);
        let sub = grammar::render(&gen::gen_expr(&sp, c, sp.max_depth));
        if char_len(&ctx) + char_len(&sub) > 250 {
            return None;
        }
        let mut case = Case::new(ev, ctx, q);
        case.aux = vec![sub];
        Some(case)
    }
    fn check(&self, _sub: &str, case: &Case, sc: &mut ShardCtx) -> Result<(), Failure> {
        let ev = case.ev;
        let sub = match case.aux.first() {
            Some(s) => s,
            None => return Ok(()),
        };
        // C must be well-formed with exactly one @ (so @ is in operand position, never next to a juxtaposition)
        let ce = match accept(ev, &case.input) {
            Some(e) if grammar::count_ans(&e) == 1 => e,
            _ => {
                sc.exclude("context is not a well-formed one-hole expression");
                return Ok(());
            }
        };
        let ee = match accept(ev, sub) {
            Some(e) => e,
            None => {
                sc.exclude("subexpression not accepted by the reference parser");
                return Ok(());
            }
        };
        let v = match eval_normal(sc, ev, sub, &case.ph) {
            Some(Outcome::Ok(v)) => v,
            Some(_) => {
                sc.class("subexpression evaluates to Err (no claim)");
                return Ok(());
            }
            None => return Ok(()),
        };
        let composed = case.input.replace('@', &format!("({})", sub));
        let lhs = match eval_normal(sc, ev, &composed, &case.ph) {
            Some(o) => o,
            None => return Ok(()),
        };
        let rhs = match eval_normal(sc, ev, &case.input, &v) {
            Some(o) => o,
            None => return Ok(()),
        };
        // C[@] once more right after a call with a placeholder that compares equal to v but is another value (other scale,
        // other sign of zero, other variant): "the result carries all the information the enclosing operation sees" also
        // means that nothing else - such as the previous call - takes part
        let twin = super::c14::twin_of(&v);
        if !twin.identical(&v) && twin.fits(ev) {
            if eval_normal(sc, ev, &case.input, &twin).is_some() {
                if let Some(again) = eval_normal(sc, ev, &case.input, &v) {
                    if !again.same(&rhs) {
                        return Err(Failure::new(format!("{}/composition/stale-placeholder", ev.name()), format!("{} (= C[@] with placeholder v = {}, as on the first call)", rhs.show(), v.show()), format!("{} after an intervening call with placeholder {}", again.show(), twin.show())));
                    }
                }
            }
        }
        if !lhs.same(&rhs) {
            // key by the operator directly above the hole
            let mut parent = "top".to_string();
            grammar::walk(&ce, &mut |n| {
                let kids: Vec<&E> = match n {
                    E::Bin(_, a, b) | E::Juxt(a, b) => vec![a, b],
                    E::Neg(a) | E::Pos(a) | E::Fact(a) | E::Sup(a, _) | E::Deg(a) | E::Rad(a) | E::Group(_, a) => vec![a],
                    E::Call(_, args) => args.iter().collect(),
                    _ => vec![],
                };
                if kids.iter().any(|k| matches!(k, E::Ans)) {
                    parent = head(n);
                }
            });
            return Err(Failure::new(
                format!("{}/composition/{}", ev.name(), parent),
                format!("{} (= C[@] with placeholder v = {})", rhs.show(), v.show()),
                format!("{} (= {:?})", lhs.show(), composed),
            ));
        }
        sc.class(if lhs.is_ok() { "both Ok" } else { "both Err" });
        if grammar::op_count(&ee) >= 1 && grammar::op_count(&ce) >= 1 && !v.identical(&Val::default_for(ev)) {
            sc.nontrivial(case.hash(), || serde_json::json!({"evaluator": ev.name(), "C": case.input, "E": sub, "q": case.ph.show(), "v": v.show(), "outcome": lhs.show()}));
        }
        Ok(())
    }
}
