//! C08 — "eval_complex reads `i` as the imaginary unit and a number literal directly followed by `i` as
//! an imaginary literal; + - * and unary minus equal the textbook component formulas exactly, / and abs
//! (modulus) within 1e-12 relative, and ^, pow, sqrt, root, exp, exp2, ln, lb, log and the
//! trigonometric/hyperbolic functions equal their principal-branch complex definitions within 1e-9
//! relative away from branch cuts. Each operator or function applied directly to real operands inside its
//! real domain returns eval_f64's value within 1e-9 relative, with an imaginary part below 1e-9 of the
//! modulus."

use super::c15;
use super::common::*;
use crate::api::{Ev, Outcome, Val};
use crate::choice::Choices;
use crate::gen;
use crate::grammar::{self, BinOp, Br, E};
use crate::refeval::cpxr::{self, C, RC};
use crate::run::{Case, Failure, Prop, ShardCtx, Sub, SubKind, Tier};
use crate::vocab;
use std::sync::OnceLock;

pub struct C08Prop;
pub static C08: C08Prop = C08Prop;

const PARTS: [&str; 21] = ["0.1", "0.25", "0.5", "0.75", "1", "1.25", "1.5", "2", "2.5", "3", "3.75", "5", "6.5", "8", "0.3", "0.2", "0.7", "1.1", "2.1", "3.3", "0.9"];

fn gen_operand(c: &mut dyn Choices) -> E {
    if c.below(12) == 11 {
        // a real operand that is a truncated spelling of a special constant
        let k = near_constants();
        return E::Lit(k[c.below(k.len() as u32) as usize].to_string());
    }
    if c.below(16) == 0 {
        // an operand a hair off an axis: one part 1e-7 … 1e-9 of the other (wedges where textbook formulas cancel)
        let a = PARTS[c.below(PARTS.len() as u32) as usize];
        let tiny = ["0.0000001", "0.00000001", "0.000000005", "0.000000001", "0.00000002"][c.below(5) as usize];
        let (re, im) = if c.below(2) == 0 { (a.to_string(), format!("{}i", tiny)) } else { (tiny.to_string(), format!("{}i", a)) };
        let re = E::Lit(re);
        let re = if c.below(2) == 0 { re } else { E::Neg(Box::new(re)) };
        let body = if c.below(2) == 0 { E::Bin(BinOp::Add, Box::new(re), Box::new(E::Lit(im))) } else { E::Bin(BinOp::Sub, Box::new(re), Box::new(E::Lit(im))) };
        return E::Group(Br::Round, Box::new(body));
    }
    if c.below(8) == 7 {
        // a plain real literal (1+X, 2*X, X-1 ... are the shapes log1p/expm1-style helpers look for)
        return E::Lit(["1", "2", "0.5", "3", "10"][c.below(5) as usize].to_string());
    }
    let a = PARTS[c.below(PARTS.len() as u32) as usize];
    let b = PARTS[c.below(PARTS.len() as u32) as usize];
    let re = E::Lit(a.to_string());
    let im = E::Lit(format!("{}i", b));
    let re = if c.below(2) == 0 { re } else { E::Neg(Box::new(re)) };
    let body = if c.below(2) == 0 { E::Bin(BinOp::Add, Box::new(re), Box::new(im)) } else { E::Bin(BinOp::Sub, Box::new(re), Box::new(im)) };
    E::Group(Br::Round, Box::new(body))
}

/// small tree over the exactly specified operators (+ - * unary minus, juxtaposition) on generic operands
fn gen_exact(c: &mut dyn Choices, depth: u32, allow_ans: bool) -> E {
    if depth == 0 || c.below(3) == 0 {
        if allow_ans && c.below(6) == 0 {
            return E::Ans;
        }
        return gen_operand(c);
    }
    if c.below(12) == 0 {
        // a generic operand scaled down (arguments of 1e-2 … 1e-5 in modulus: small-argument shortcuts live there)
        let k = ["0.01", "0.001", "0.0001", "0.00001", "0.00009", "0.0003"][c.below(6) as usize];
        return gen::mk_bin(BinOp::Mul, gen_operand(c), E::Lit(k.to_string()));
    }
    match c.below(7) {
        0 | 1 => gen::mk_bin(BinOp::Add, gen_exact(c, depth - 1, allow_ans), gen_exact(c, depth - 1, allow_ans)),
        2 => gen::mk_bin(BinOp::Sub, gen_exact(c, depth - 1, allow_ans), gen_exact(c, depth - 1, allow_ans)),
        3 | 4 => gen::mk_bin(BinOp::Mul, gen_exact(c, depth - 1, allow_ans), gen_exact(c, depth - 1, allow_ans)),
        5 => gen::mk_neg(gen_exact(c, depth - 1, allow_ans)),
        _ => gen::mk_juxt(gen_operand(c), gen_operand(c)),
    }
}

fn root_forms() -> &'static Vec<(&'static str, usize)> {
    static CELL: OnceLock<Vec<(&'static str, usize)>> = OnceLock::new();
    CELL.get_or_init(|| {
        let mut v: Vec<(&'static str, usize)> = vec![("/", 2), ("^", 2), ("°", 1), ("rad", 1), ("sup2", 1), ("sup3", 1)];
        for f in vocab::funcs(Ev::Cpx) {
            v.push((f.name, if f.arity == vocab::Arity::Two { 2 } else { 1 }));
        }
        v
    })
}

fn literal_cases() -> &'static Vec<String> {
    static CELL: OnceLock<Vec<String>> = OnceLock::new();
    CELL.get_or_init(|| {
        let mut v = vec!["i".to_string()];
        for l in ["0", "1", "2", "12", "0.5", ".5", "5.", "1.25", "007", "0.1", "123456789.125", "9007199254740993", "0.000001", "100000000000000000000", "1.7976931348623157", "3.141592653589793"] {
            v.push(l.to_string());
            v.push(format!("{}i", l));
            v.push(format!("-{}i", l));
            v.push(format!("{}+{}i", l, l));
            v.push(format!("({}i)", l));
            v.push(format!("{}i*i", l));
            v.push(format!("i*{}i", l));
        }
        // leading-dot and trailing-dot spellings with more digits than a double (or a u64) holds
        for l in [".31177534565567863", ".57721566490153286060", ".1000000000000000055511151231257827", ".9999999999999999", ".99999999999999994", ".99999999999999995", ".49999999999999997", ".000000000000000000001", ".12345678901234567890123456789", "31177534565567863.", "57721566490153286060."] {
            for t in [l.to_string(), format!("{}i", l), format!("{}+{}i", l, l), format!("2*{}", l), format!("-{}i", l)] {
                v.push(t);
            }
        }
        v.extend(["i*i", "i^2", "i²", "(i)(i)", "-i", "+i", "i+i", "i-i", "2i*3i", "pi", "π", "e", "pi*i", "e*i", "i/i", "(1+i)*(1-i)", "(1+2i)*(3+4i)", "(1+2i)-(3+4i)", "-(1+2i)"].iter().map(|s| s.to_string()));
        v
    })
}

/// extreme-magnitude placeholders: the modulus must still be accurate where re^2 + im^2 over/underflows
fn extreme_values() -> Vec<C> {
    let mut v = Vec::new();
    for (a, b) in [(3.0, 4.0), (1.0, 1.0), (5.0, 12.0), (1.0, 0.0), (0.0, 1.0), (8.0, 15.0)] {
        for e in [-320i32, -300, -200, -170, -162, -155, -150, -100, 0, 100, 150, 153, 154, 155, 160, 200, 300, 307] {
            let s = 10f64.powi(e);
            v.push((a * s, b * s));
            v.push((-a * s, b * s));
        }
    }
    v.push((f64::MAX, f64::MAX / 2.0));
    v.push((5e-324, 5e-324));
    v.push((f64::MIN_POSITIVE, f64::MIN_POSITIVE));
    v
}

fn near_cut(canon: &str, z: C, second: Option<C>) -> bool {
    let m = cpxr::modulus(z);
    let neg_real_axis = |z: C| z.0 <= 0.0 && z.1.abs() < 1e-3 * cpxr::modulus(z).max(1e-300);
    match canon {
        "ln" | "lb" | "sqrt" => m < 1e-6 || neg_real_axis(z),
        "log" => m < 1e-6 || neg_real_axis(z) || second.map(|b| neg_real_axis(b) || cpxr::modulus(b) < 1e-6 || cpxr::modulus(cpxr::sub(b, (1.0, 0.0))) < 1e-3).unwrap_or(false),
        "pow" | "^" => m < 1e-6 || neg_real_axis(z),
        "root" => second.map(|x| cpxr::modulus(x) < 1e-6 || neg_real_axis(x)).unwrap_or(false) || m < 1e-6,
        "asin" | "acos" => z.1.abs() < 1e-3 && z.0.abs() > 1.0 - 1e-3,
        "atanh" => z.1.abs() < 1e-3 && z.0.abs() > 1.0 - 1e-3,
        "atan" => z.0.abs() < 1e-3 && z.1.abs() > 1.0 - 1e-3,
        "asinh" => z.0.abs() < 1e-3 && z.1.abs() > 1.0 - 1e-3,
        "acosh" => z.1.abs() < 1e-3 && z.0 < 1.0 + 1e-3,
        _ => false,
    }
}

impl Prop for C08Prop {
    fn id(&self) -> &'static str {
        "C08"
    }
    fn rule(&self) -> String {
        "eval_complex. (literals, exhaustive) every literal form L, Li, .Li, L.i, -Li, L+Li, bare i and products with i over a literal pool: L = (d(L),0), Li = (0,d(L)), i*i = -1. (exact, random) trees of depth <=5 over + - * unary minus and juxtaposition on generic operands (a±bi), both parts non-zero with magnitudes 0.1..8, and @: compared bit for bit with own pair arithmetic. (root, random) one operator or function (every spelling, incl. ar- aliases, /, ^, °, rad, superscripts) applied at the root to exact-operator subtrees: / and abs within 1e-12, forward functions within 1e-9 of component formulas built from real libm functions, ln/lb/log/sqrt/root/pow/^ from ln|z|+i*atan2 definitions, inverse trigonometric/hyperbolic functions by their defining identity (reference forward function of the answer returns z within 1e-9*|f'(w)|*|w|) and principal range; arguments within 1e-3 of a branch cut or of zero modulus are skipped and counted. (extreme-abs, exhaustive) abs of placeholders with magnitudes 1e-320..1e307 (where re^2+im^2 over/underflows) within 1e-12 of hypot. (real, exhaustive) every operator/function on real literals inside its real domain: re within 1e-9 relative of eval_f64, |im| <= 1e-9*modulus. non-trivial = an operand with non-zero imaginary part reaches *, /, ^ or a function; distinct by (input, placeholder).".into()
    }
    fn subs(&self, tier: Tier) -> Vec<Sub> {
        vec![
            Sub { name: "literals", kind: SubKind::Enum { count: literal_cases().len() as u64 } },
            Sub { name: "real", kind: SubKind::Enum { count: c15::C15.subs(tier).iter().find(|s| s.name == "complex-f64").map(|s| if let SubKind::Enum { count } = s.kind { count } else { 0 }).unwrap_or(0) } },
            Sub { name: "extreme-abs", kind: SubKind::Enum { count: extreme_values().len() as u64 * 3 } },
            Sub { name: "products", kind: SubKind::Enum { count: 21u64.pow(4) * 2 } },
            Sub { name: "exact", kind: SubKind::Random { cases: tier.pick(300_000, 10_000_000), len: 160 } },
            Sub { name: "root", kind: SubKind::Random { cases: tier.pick(400_000, 20_000_000), len: 120 } },
        ]
    }
    fn gen_enum(&self, sub: &str, idx: u64, tier: Tier) -> Option<Case> {
        if sub == "products" {
            // every product (a+bi)*(c±di) over the decimal parts: the component formulas hold bit for bit also where the two
            // partial products of a component are mathematically equal and round differently (0.3*1 vs 3*0.1)
            let mut i = idx;
            let neg = i % 2 == 1;
            i /= 2;
            let pick = |i: &mut u64| {
                let p = PARTS[(*i % 21) as usize];
                *i /= 21;
                p
            };
            let (a, b, c, d) = (pick(&mut i), pick(&mut i), pick(&mut i), pick(&mut i));
            return Some(Case::new(Ev::Cpx, format!("({}+{}i)*({}{}{}i)", a, b, c, if neg { "-" } else { "+" }, d), Val::C(0.0, 0.0)));
        }
        match sub {
            "literals" => Some(Case::new(Ev::Cpx, literal_cases().get(idx as usize)?.clone(), Val::C(0.0, 0.0))),
            "extreme-abs" => {
                let v = extreme_values();
                let z = v[(idx / 3) as usize % v.len()];
                let form = ["abs(@)", "abs(-@)", "abs((@))+0"][(idx % 3) as usize];
                Some(Case::new(Ev::Cpx, form.to_string(), Val::C(z.0, z.1)))
            }
            _ => c15::C15.gen_enum("complex-f64", idx, tier),
        }
    }
    fn gen(&self, sub: &str, c: &mut dyn Choices) -> Option<Case> {
        let ph = {
            let a: f64 = PARTS[c.below(PARTS.len() as u32) as usize].parse().unwrap();
            let b: f64 = PARTS[c.below(PARTS.len() as u32) as usize].parse().unwrap();
            Val::C(if c.below(2) == 0 { a } else { -a }, if c.below(2) == 0 { b } else { -b })
        };
        let e = if sub == "exact" {
            let d = 1 + c.below(5);
            gen_exact(c, d, true)
        } else {
            let forms = root_forms();
            let (name, arity) = forms[c.below(forms.len() as u32) as usize];
            let d = c.below(3);
            const REALS: [&str; 9] = ["2", "3", "0.5", "1.5", "0.25", "1", "4", "2.5", "0.75"];
            let real_lit = |c: &mut dyn Choices| {
                let l = E::Lit(REALS[c.below(REALS.len() as u32) as usize].to_string());
                if c.below(3) == 0 {
                    E::Group(Br::Round, Box::new(E::Neg(Box::new(l))))
                } else {
                    l
                }
            };
            let mut a = gen_exact(c, d, true);
            if c.below(2) == 0 {
                // an approximate operation underneath (towers of powers, a root of a power, ln of exp ...): checked one step at a time
                let (n2, ar2) = forms[c.below(forms.len() as u32) as usize];
                let second = if c.below(2) == 0 { real_lit(c) } else { gen_exact(c, 1, false) };
                a = match (n2, ar2) {
                    ("/", _) => gen::mk_bin(BinOp::Div, a, second),
                    ("^", _) => gen::mk_bin(BinOp::Pow, a, second),
                    ("°", _) => gen::mk_deg(a),
                    ("rad", _) => gen::mk_rad(a),
                    ("sup2", _) => gen::mk_sup(a, "2"),
                    ("sup3", _) => gen::mk_sup(a, "3"),
                    (n, 2) => E::Call(n, vec![a, second]),
                    (n, _) => E::Call(n, vec![a]),
                };
            }
            let d2 = c.below(2);
            let b = if c.below(3) == 0 { real_lit(c) } else { gen_exact(c, d2, false) };
            match (name, arity) {
                ("/", _) => gen::mk_bin(BinOp::Div, a, b),
                ("^", _) => gen::mk_bin(BinOp::Pow, a, b),
                ("°", _) => gen::mk_deg(a),
                ("rad", _) => gen::mk_rad(a),
                ("sup2", _) => gen::mk_sup(a, "2"),
                ("sup3", _) => gen::mk_sup(a, "3"),
                (n, 2) => E::Call(n, vec![a, b]),
                (n, _) => E::Call(n, vec![a]),
            }
        };
        let s = grammar::render(&e);
        if char_len(&s) > 256 {
            return None;
        }
        Some(Case::new(Ev::Cpx, s, ph))
    }
    fn check(&self, sub: &str, case: &Case, sc: &mut ShardCtx) -> Result<(), Failure> {
        if sub == "real" {
            return c15::C15.check("complex-f64", case, sc);
        }
        if sub == "extreme-abs" {
            let z = match case.ph {
                Val::C(a, b) => (a, b),
                _ => return Ok(()),
            };
            let o = match eval_normal(sc, Ev::Cpx, &case.input, &case.ph) {
                Some(o) => o,
                None => return Ok(()),
            };
            let want = cpxr::modulus(z);
            if !want.is_finite() {
                sc.exclude("modulus not representable");
                return Ok(());
            }
            let ok = match &o {
                // subnormal moduli cannot be relatively accurate to 1e-12: allow one unit of the smallest subnormal there
                Outcome::Ok(Val::C(re, im)) => *im == 0.0 && ((re - want).abs() <= 1e-12 * want || (want < 1e-300 && (re - want).abs() <= 1e-322)),
                _ => false,
            };
            if !ok {
                return Err(Failure::new("complex/value/abs-extreme", format!("{:?}+0i within 1e-12 relative (modulus)", want), o.show()));
            }
            sc.class("fn:abs (extreme magnitudes)");
            sc.nontrivial(case.hash(), || sample(case, &o.show()));
            return Ok(());
        }
        let e = match accept(Ev::Cpx, &case.input) {
            Some(e) => e,
            None => {
                sc.exclude("not accepted by the reference parser");
                return Ok(());
            }
        };
        if case.input.contains('@') && case.aux.is_empty() {
            // the same text is evaluated again right away with another placeholder: its operands must be the new ones
            if let Val::C(a, b) = case.ph {
                let first = Case { ev: case.ev, input: case.input.clone(), ph: case.ph.clone(), aux: vec!["first".into()] };
                self.check(sub, &first, sc)?;
                let second = Case { ev: case.ev, input: case.input.clone(), ph: Val::C(-b - 0.75, a * 0.5 + 1.25), aux: vec!["second call with another placeholder".into()] };
                return self.check(sub, &second, sc).map_err(|mut f| {
                    f.detail = format!("second evaluation of the same text, placeholder changed from {} to {}", case.ph.show(), second.ph.show());
                    f.case = Some(second.clone());
                    f
                });
            }
        }
        let ph = match case.ph {
            Val::C(a, b) => (a, b),
            _ => return Ok(()),
        };
        let o = match eval_normal(sc, Ev::Cpx, &case.input, &case.ph) {
            Some(o) => o,
            None => return Ok(()),
        };
        let got = match &o {
            Outcome::Ok(Val::C(a, b)) => (*a, *b),
            _ => return Err(Failure::new("complex/err-on-wellformed", "Ok(_) (every complex operation is defined)", o.show())),
        };
        let bits_eq = |a: C, b: C| Val::C(a.0, a.1).same(&Val::C(b.0, b.1));
        // whole tree exact?
        match cpxr::eval(&e, ph) {
            RC::Exact(w) => {
                if !bits_eq(got, w) {
                    let hd = localise(&e, &mut |n| match cpxr::eval(n, ph) {
                        RC::Exact(wn) => match crate::api::eval(Ev::Cpx, &grammar::render(n), &case.ph) {
                            Outcome::Ok(Val::C(a, b)) => !bits_eq((a, b), wn),
                            _ => false,
                        },
                        _ => false,
                    });
                    return Err(Failure::new(format!("complex/exact/{}", hd), format!("{:?}+{:?}i exactly (component formulas)", w.0, w.1), o.show()));
                }
                sc.class("exact tree (+ - * neg, literals)");
                if case.input.contains('i') && (case.input.contains('*') || case.input.contains(")(")) {
                    sc.nontrivial(case.hash(), || sample(case, &o.show()));
                } else if sub == "literals" {
                    sc.nontrivial(case.hash(), || sample(case, &o.show()));
                }
                return Ok(());
            }
            RC::Unspec(_) | RC::Approx(_) => {}
        }
        // one approximate operator at the root over exact operands
        let (canon, args): (String, Vec<&E>) = match &e {
            E::Bin(BinOp::Div, a, b) => ("/".into(), vec![a, b]),
            E::Bin(BinOp::Pow, a, b) => ("^".into(), vec![a, b]),
            E::Sup(a, _) => ("sup".into(), vec![a]),
            E::Deg(a) => ("deg".into(), vec![a]),
            E::Rad(a) => ("rad".into(), vec![a]),
            E::Call(n, a) => (vocab::all_canon(n).to_string(), a.iter().collect()),
            _ => {
                sc.exclude("approximate node below the root (no claim at this tolerance)");
                return Ok(());
            }
        };
        // operands: exact where the reference can compute them exactly, otherwise the library's own value of that
        // subexpression (one-step oracle: the root operation must be the principal-branch function of its operands)
        let mut zs: Vec<C> = Vec::new();
        let mut one_step = false;
        for a in &args {
            match cpxr::eval(a, ph) {
                RC::Exact(z) => zs.push(z),
                _ => match eval_normal(sc, Ev::Cpx, &grammar::render(a), &case.ph) {
                    Some(Outcome::Ok(Val::C(x, y))) => {
                        // the property quantifies over generic operands: both parts non-zero, moderate magnitude
                        let m = cpxr::modulus((x, y));
                        if !(m >= 1e-2 && m <= 1e2 && x.abs() >= 1e-3 * m && y.abs() >= 1e-3 * m) {
                            sc.exclude("library-valued operand is not generic (tiny, huge or near an axis)");
                            return Ok(());
                        }
                        zs.push((x, y));
                        one_step = true;
                    }
                    _ => {
                        sc.exclude("operand has no value");
                        return Ok(());
                    }
                },
            }
        }
        if zs.iter().any(|z| !(z.0.is_finite() && z.1.is_finite())) {
            sc.exclude("non-finite operand");
            return Ok(());
        }
        // "generic complex operands (both parts non-zero, moderate magnitude)": the inverse functions of the library lose
        // accuracy like eps*|z|^2 (1.08e-9 at |z| = 5766), which is outside the domain the property quantifies over
        if zs.iter().any(|z| cpxr::modulus(*z) > 1e3) {
            sc.exclude("operand magnitude above 1e3 (not moderate)");
            return Ok(());
        }
        // operand variants: exactly on a cut the two one-sided limits are both accepted (the sign of a zero part decides)
        let mut variants: Vec<Vec<C>> = vec![zs.clone()];
        if near_cut(&canon, zs[0], zs.get(1).copied()) {
            let on_axis = |z: C| z.1 == 0.0 && z.0 < 0.0;
            let log_like = matches!(canon.as_str(), "ln" | "lb" | "sqrt" | "log" | "pow" | "^" | "root" | "sup");
            let small = zs.iter().any(|z| cpxr::modulus(*z) < 1e-6) || (canon == "log" && cpxr::modulus(cpxr::sub(zs[1], (1.0, 0.0))) < 1e-3);
            let all_on_or_away = zs.iter().enumerate().all(|(k, z)| {
                let relevant = match canon.as_str() {
                    "root" => k == 1,
                    "log" => true,
                    _ => k == 0,
                };
                !relevant || on_axis(*z) || !(z.0 <= 0.0 && z.1.abs() < 1e-3 * cpxr::modulus(*z).max(1e-300))
            });
            if log_like && !small && all_on_or_away {
                variants.clear();
                let opts: Vec<Vec<C>> = zs.iter().map(|z| if on_axis(*z) { vec![(z.0, 0.0), (z.0, -0.0)] } else { vec![*z] }).collect();
                let mut acc: Vec<Vec<C>> = vec![vec![]];
                for o in opts {
                    let mut next = Vec::new();
                    for pre in &acc {
                        for x in &o {
                            let mut v = pre.clone();
                            v.push(*x);
                            next.push(v);
                        }
                    }
                    acc = next;
                }
                variants = acc;
                sc.class("operand exactly on a branch cut: either one-sided limit accepted");
            } else {
                sc.exclude("within 1e-3 of a branch cut / zero modulus");
                return Ok(());
            }
        }
        if one_step {
            sc.class("one-step oracle (operands evaluated by the library)");
        }
        let with_operands = |vals: &[C]| -> E {
            let l = |k: usize| Box::new(E::Lit(format!("cpx:{:x}:{:x}", vals[k].0.to_bits(), vals[k].1.to_bits())));
            match &e {
                E::Bin(op, _, _) => E::Bin(*op, l(0), l(1)),
                E::Sup(_, d) => E::Sup(l(0), d.clone()),
                E::Deg(_) => E::Deg(l(0)),
                E::Rad(_) => E::Rad(l(0)),
                E::Call(n, a) => E::Call(n, (0..a.len()).map(|k| *l(k)).collect()),
                other => other.clone(),
            }
        };
        let spelling = match &e {
            E::Call(n, _) => n.to_string(),
            _ => canon.clone(),
        };
        // operands below 1e-6 in modulus get their own signature: the library's log-based inverse functions cancel there
        // (a recorded finding), and that must not hide other failures of the same functions
        let canon_sig = if zs.iter().any(|z| cpxr::modulus(*z) < 1e-6) { format!("{}/tiny-operand", canon) } else { canon.clone() };
        let fail = |what: &str, want: String| Err(Failure::new(format!("complex/{}/{}", what, canon_sig), want, o.show()));
        let inverse: Option<(fn(C) -> C, fn(C) -> C)> = match canon.as_str() {
            "asin" => Some((cpxr::csin, cpxr::ccos)),
            "acos" => Some((cpxr::ccos, cpxr::csin)),
            "atan" => Some((cpxr::ctan, |w| cpxr::div((1.0, 0.0), cpxr::mul(cpxr::ccos(w), cpxr::ccos(w))))),
            "asinh" => Some((cpxr::csinh, cpxr::ccosh)),
            "acosh" => Some((cpxr::ccosh, cpxr::csinh)),
            "atanh" => Some((cpxr::ctanh, |w| cpxr::div((1.0, 0.0), cpxr::mul(cpxr::ccosh(w), cpxr::ccosh(w))))),
            _ => None,
        };
        if let Some((fwd, dfwd)) = inverse {
            let z = zs[0];
            let w = got;
            let back = fwd(w);
            let tol = 1e-9 * cpxr::modulus(dfwd(w)) * cpxr::modulus(w) + 1e-13 * cpxr::modulus(z).max(1e-300);
            let hp = std::f64::consts::FRAC_PI_2 + 1e-12;
            let pi = std::f64::consts::PI + 1e-12;
            let in_range = match canon.as_str() {
                "asin" | "atan" => w.0.abs() <= hp,
                "acos" => w.0 >= -1e-12 && w.0 <= pi,
                "asinh" | "atanh" => w.1.abs() <= hp,
                _ => w.0 >= -1e-12 && w.1.abs() <= pi,
            };
            if !(cpxr::modulus(cpxr::sub(back, z)) <= tol && in_range) {
                return fail("inverse-identity", format!("w in the principal range with {}(w) = {:?}+{:?}i within 1e-9", &canon[1..], z.0, z.1));
            }
        } else {
            let rel = if canon == "/" || canon == "abs" { 1e-12 } else { 1e-9 };
            let mut wants: Vec<C> = Vec::new();
            for v in &variants {
                match cpxr::eval(&with_operands(v), ph) {
                    RC::Approx(w) | RC::Exact(w) => wants.push(w),
                    _ => {
                        sc.exclude("no reference formula");
                        return Ok(());
                    }
                }
            }
            if wants.iter().any(|w| !(w.0.is_finite() && w.1.is_finite())) {
                sc.exclude("reference value not finite");
                return Ok(());
            }
            if !wants.iter().any(|w| cpxr::close(got, *w, rel)) {
                let w = wants[0];
                return fail("value", format!("{:?}+{:?}i within {:e} relative{} (operands {:?})", w.0, w.1, rel, if wants.len() > 1 { " or the limit from the other side of the cut" } else { "" }, zs));
            }
        }
        sc.class(&format!("fn:{}", spelling));
        if zs.iter().any(|z| z.1 != 0.0) {
            sc.nontrivial(case.hash(), || sample(case, &o.show()));
        }
        Ok(())
    }
}
