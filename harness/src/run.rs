//! Runner: 16 logical shards (threads of one worker process), proptest `TestRunner` per shard with a
//! seed derived from (VERIF_SEED, property, sub-check, shard); exhaustive enumerations split by index.
//! Counters, distinct non-trivial set, deterministic samples, known-finding matching, replay files.

use crate::api::{Ev, Val};
use crate::choice::{Choices, Seq};
use crate::util::{fnv, mix, seed_bytes};
use proptest::collection::vec;
use proptest::prelude::any;
use proptest::test_runner::{Config, RngAlgorithm, TestCaseError, TestError, TestRng, TestRunner};
use serde_json::{json, Value};
use std::collections::{BTreeMap, HashSet};
use std::sync::atomic::{AtomicBool, AtomicU64, Ordering};
use std::sync::Mutex;
use std::time::Instant;

pub const NSHARDS: u64 = 16;

#[derive(Clone, Copy, PartialEq, Eq, Debug)]
pub enum Tier {
    Quick,
    Thorough,
}
impl Tier {
    pub fn name(self) -> &'static str {
        match self {
            Tier::Quick => "quick",
            Tier::Thorough => "thorough",
        }
    }
    /// pick by tier
    pub fn pick(self, quick: u64, thorough: u64) -> u64 {
        match self {
            Tier::Quick => quick,
            Tier::Thorough => thorough,
        }
    }
}

/// One generated test case. `aux` carries whatever else the sub-check needs (a rewritten variant,
/// a context, an expected value …) so that a replay file is just a serialised `Case`.
#[derive(Clone, Debug)]
pub struct Case {
    pub ev: Ev,
    pub input: String,
    pub ph: Val,
    pub aux: Vec<String>,
}

impl Case {
    pub fn new(ev: Ev, input: String, ph: Val) -> Case {
        Case { ev, input, ph, aux: Vec::new() }
    }
    pub fn hash(&self) -> u64 {
        let mut h = fnv(self.input.as_bytes());
        h = mix(h, self.ev as u64);
        h = mix(h, fnv(self.ph.enc().as_bytes()));
        for a in &self.aux {
            h = mix(h, fnv(a.as_bytes()));
        }
        h
    }
    pub fn to_json(&self) -> Value {
        json!({"evaluator": self.ev.name(), "input": self.input, "placeholder": self.ph.enc(), "aux": self.aux})
    }
    pub fn from_json(v: &Value) -> Option<Case> {
        Some(Case {
            ev: Ev::from_name(v.get("evaluator")?.as_str()?)?,
            input: v.get("input")?.as_str()?.to_string(),
            ph: Val::dec(v.get("placeholder")?.as_str()?)?,
            aux: v.get("aux").and_then(|a| a.as_array()).map(|a| a.iter().filter_map(|x| x.as_str().map(|s| s.to_string())).collect()).unwrap_or_default(),
        })
    }
}

#[derive(Clone, Debug)]
pub struct Failure {
    /// stable signature: groups failures by root cause; matched against known_findings.txt
    pub sig: String,
    pub expected: String,
    pub observed: String,
    pub detail: String,
    /// the exact failing case when it differs from the generated one (e.g. another placeholder)
    pub case: Option<Case>,
}

impl Failure {
    pub fn new(sig: impl Into<String>, expected: impl Into<String>, observed: impl Into<String>) -> Failure {
        Failure { sig: sig.into(), expected: expected.into(), observed: observed.into(), detail: String::new(), case: None }
    }
    pub fn detail(mut self, d: impl Into<String>) -> Failure {
        self.detail = d.into();
        self
    }
    pub fn with_case(mut self, c: Case) -> Failure {
        self.case = Some(c);
        self
    }
}

pub enum SubKind {
    /// proptest-driven: total case count, choice-sequence length
    Random { cases: u64, len: usize },
    /// exhaustive enumeration of indices 0..count
    Enum { count: u64 },
}

pub struct Sub {
    pub name: &'static str,
    pub kind: SubKind,
}

pub trait Prop: Sync {
    fn id(&self) -> &'static str;
    fn rule(&self) -> String;
    fn assumptions(&self) -> Vec<String> {
        Vec::new()
    }
    fn subs(&self, tier: Tier) -> Vec<Sub>;
    fn gen(&self, _sub: &str, _c: &mut dyn Choices) -> Option<Case> {
        None
    }
    fn gen_enum(&self, _sub: &str, _idx: u64, _tier: Tier) -> Option<Case> {
        None
    }
    fn check(&self, sub: &str, case: &Case, sc: &mut ShardCtx) -> Result<(), Failure>;
    /// extra work that does not fit the case model (threads, child processes); returns failures
    fn custom(&self, _tier: Tier, _seed: u64, _sc: &mut ShardCtx) -> Vec<(Case, Failure)> {
        Vec::new()
    }
}

/// `known:` lines of known_findings.txt for one property.
#[derive(Clone, Default)]
pub struct Known {
    /// (sig prefix, full description)
    pub entries: Vec<(String, String)>,
}

impl Known {
    pub fn load(prop: &str) -> Known {
        let path = std::env::var("SCVERIF_KNOWN").unwrap_or_else(|_| "/verif/known_findings.txt".to_string());
        let mut k = Known::default();
        if let Ok(text) = std::fs::read_to_string(&path) {
            for line in text.lines() {
                let line = line.trim();
                if let Some(rest) = line.strip_prefix("known:") {
                    let rest = rest.trim();
                    let mut p = None;
                    let mut s = None;
                    for w in rest.split_whitespace() {
                        if let Some(x) = w.strip_prefix("property=") {
                            p = Some(x.to_string());
                        }
                        if let Some(x) = w.strip_prefix("sig=") {
                            s = Some(x.to_string());
                        }
                    }
                    if let (Some(p), Some(s)) = (p, s) {
                        if p == prop {
                            k.entries.push((s, rest.to_string()));
                        }
                    }
                }
            }
        }
        k
    }
    pub fn matches(&self, sig: &str) -> Option<&(String, String)> {
        self.entries.iter().find(|(s, _)| sig == s || sig.starts_with(&format!("{}/", s)) || (s.ends_with('*') && sig.starts_with(s.trim_end_matches('*'))))
    }
}

/// Shared, cross-shard state.
pub struct Shared {
    pub distinct: Vec<Mutex<HashSet<u64>>>,
    pub distinct_cap: usize,
    pub heartbeat: Vec<AtomicU64>,
    pub current: Vec<Mutex<String>>,
    pub done: AtomicBool,
}

impl Shared {
    pub fn new() -> Shared {
        Shared {
            distinct: (0..64).map(|_| Mutex::new(HashSet::new())).collect(),
            distinct_cap: 1 << 20, // per stripe: 64 Mi entries overall
            heartbeat: (0..NSHARDS).map(|_| AtomicU64::new(0)).collect(),
            current: (0..NSHARDS).map(|_| Mutex::new(String::new())).collect(),
            done: AtomicBool::new(false),
        }
    }
    fn insert(&self, h: u64) {
        let stripe = (h >> 58) as usize;
        let mut s = self.distinct[stripe].lock().unwrap();
        if s.len() < self.distinct_cap {
            s.insert(h);
        }
    }
    pub fn distinct_count(&self) -> u64 {
        self.distinct.iter().map(|s| s.lock().unwrap().len() as u64).sum()
    }
}

/// Per-shard context handed to `Prop::check`.
pub struct ShardCtx<'a> {
    pub prop: &'static str,
    pub shard: u64,
    pub tier: Tier,
    pub profile: String,
    pub shared: &'a Shared,
    pub known: &'a Known,
    pub frozen: bool,
    pub evaluations: u64,
    pub cases: u64,
    pub classes: BTreeMap<String, u64>,
    /// (priority hash, sample) — the globally smallest priorities are kept, so sampling is deterministic
    pub samples: Vec<(u64, Value)>,
    pub first_samples: Vec<Value>,
    pub known_hits: BTreeMap<String, (u64, String)>,
    pub excluded: BTreeMap<String, u64>,
    pub failures: Vec<(String, Case, Failure)>,
    pub runtime_excluded: HashSet<String>,
    pub maxima: BTreeMap<String, u64>,
    pub journal: Option<std::fs::File>,
    pub side: Vec<String>,
}

const SAMPLE_KEEP: usize = 12;

impl<'a> ShardCtx<'a> {
    pub fn new(prop: &'static str, shard: u64, tier: Tier, shared: &'a Shared, known: &'a Known) -> ShardCtx<'a> {
        let journal = std::env::var("SCVERIF_JOURNAL_DIR").ok().and_then(|d| std::fs::OpenOptions::new().create(true).write(true).truncate(true).open(format!("{}/shard{}.json", d, shard)).ok());
        ShardCtx {
            prop,
            shard,
            tier,
            profile: std::env::var("SCVERIF_PROFILE").unwrap_or_else(|_| "rel".into()),
            shared,
            known,
            frozen: false,
            evaluations: 0,
            cases: 0,
            classes: BTreeMap::new(),
            samples: Vec::new(),
            first_samples: Vec::new(),
            known_hits: BTreeMap::new(),
            excluded: BTreeMap::new(),
            failures: Vec::new(),
            runtime_excluded: HashSet::new(),
            maxima: BTreeMap::new(),
            journal,
            side: Vec::new(),
        }
    }
    /// count `n` calls into the library
    pub fn evals(&mut self, n: u64) {
        if !self.frozen {
            self.evaluations += n;
        }
    }
    pub fn class(&mut self, name: &str) {
        if !self.frozen {
            *self.classes.entry(name.to_string()).or_insert(0) += 1;
        }
    }
    pub fn class_n(&mut self, name: &str, n: u64) {
        if !self.frozen {
            *self.classes.entry(name.to_string()).or_insert(0) += n;
        }
    }
    pub fn exclude(&mut self, why: &str) {
        if !self.frozen {
            *self.excluded.entry(why.to_string()).or_insert(0) += 1;
        }
    }
    pub fn maximum(&mut self, name: &str, v: u64) {
        if !self.frozen {
            let e = self.maxima.entry(name.to_string()).or_insert(0);
            if v > *e {
                *e = v;
            }
        }
    }
    /// record a distinct non-trivial case (by hash) with a lazily built sample
    pub fn nontrivial(&mut self, h: u64, sample: impl FnOnce() -> Value) {
        if self.frozen {
            return;
        }
        self.shared.insert(h);
        let pr = mix(h, 0x5a17);
        if self.first_samples.len() < 2 {
            self.first_samples.push(sample());
            return;
        }
        if self.samples.len() < SAMPLE_KEEP {
            self.samples.push((pr, sample()));
            self.samples.sort_by_key(|x| x.0);
        } else if pr < self.samples[SAMPLE_KEEP - 1].0 {
            self.samples[SAMPLE_KEEP - 1] = (pr, sample());
            self.samples.sort_by_key(|x| x.0);
        }
    }
    /// note that a case is starting (watchdog + journal)
    pub fn begin_case(&mut self, case: &Case) {
        let input = &case.input;
        self.shared.heartbeat[self.shard as usize].fetch_add(1, Ordering::Relaxed);
        if let Ok(mut g) = self.shared.current[self.shard as usize].try_lock() {
            g.clear();
            g.push_str(case.ev.name());
            g.push_str(" :: ");
            g.push_str(input);
            g.push_str(" :: placeholder ");
            g.push_str(&case.ph.enc());
        }
        if let Some(f) = &mut self.journal {
            use std::io::{Seek, SeekFrom, Write};
            let _ = f.seek(SeekFrom::Start(0));
            let _ = f.set_len(0);
            let _ = f.write_all(case.to_json().to_string().as_bytes());
        }
    }
}

fn shard_count(total: u64, shard: u64) -> u64 {
    total / NSHARDS + if shard < total % NSHARDS { 1 } else { 0 }
}

/// Decide what to do with a failing case: known finding / already reported / new.
/// Returns true if the failure must be reported to proptest (new violation).
fn triage(sc: &mut ShardCtx, sub: &str, case: &Case, f: &Failure, target: &Option<String>) -> bool {
    if let Some(t) = target {
        // shrinking towards one signature: everything else passes
        return &f.sig == t;
    }
    if let Some((_, desc)) = sc.known.matches(&f.sig) {
        let e = sc.known_hits.entry(desc.clone()).or_insert((0, format!("{} :: {}", case.ev.name(), case.input)));
        e.0 += 1;
        return false;
    }
    if sc.runtime_excluded.contains(&f.sig) {
        *sc.excluded.entry(format!("already-reported:{}", f.sig)).or_insert(0) += 1;
        return false;
    }
    let _ = sub;
    true
}

fn run_random(prop: &dyn Prop, sub: &str, cases: u64, len: usize, seed: u64, sc: &mut ShardCtx) {
    let mut remaining = shard_count(cases, sc.shard);
    let mut round = 0u64;
    while remaining > 0 && round < 64 {
        let cfg = Config { cases: remaining as u32, failure_persistence: None, max_shrink_iters: 2000, max_global_rejects: u32::MAX, ..Config::default() };
        let rng = TestRng::from_seed(RngAlgorithm::ChaCha, &seed_bytes(seed, prop.id(), sub, sc.shard * 16 + round));
        let mut runner = TestRunner::new_with_rng(cfg, rng);
        let strat = vec(any::<u16>(), (len / 2)..=len);
        let mut target: Option<String> = None;
        let mut done_in_round = 0u64;
        let mut minimal: Option<(Case, Failure)> = None;
        let res = {
            let sc_cell = std::cell::RefCell::new(&mut *sc);
            let target_cell = std::cell::RefCell::new(&mut target);
            let done_cell = std::cell::RefCell::new(&mut done_in_round);
            let min_cell = std::cell::RefCell::new(&mut minimal);
            runner.run(&strat, |seq| {
                let mut sc = sc_cell.borrow_mut();
                let mut target = target_cell.borrow_mut();
                let mut c = Seq::new(&seq);
                let case = match prop.gen(sub, &mut c) {
                    Some(c) => c,
                    None => {
                        if !sc.frozen {
                            **done_cell.borrow_mut() += 1;
                            sc.exclude("generator-declined");
                        }
                        return Ok(());
                    }
                };
                if !sc.frozen {
                    **done_cell.borrow_mut() += 1;
                    sc.cases += 1;
                }
                sc.begin_case(&case);
                match prop.check(sub, &case, &mut sc) {
                    Ok(()) => Ok(()),
                    Err(f) => {
                        if triage(&mut sc, sub, &case, &f, &target) {
                            if target.is_none() {
                                **target = Some(f.sig.clone());
                                sc.frozen = true;
                            }
                            **min_cell.borrow_mut() = Some((f.case.clone().unwrap_or_else(|| case.clone()), f.clone()));
                            Err(TestCaseError::fail(f.sig.clone()))
                        } else {
                            Ok(())
                        }
                    }
                }
            })
        };
        sc.frozen = false;
        match res {
            Ok(()) => break,
            Err(TestError::Fail(_, _)) | Err(TestError::Abort(_)) => {
                // proptest's last failing call is the minimal one it found; `minimal` holds the last failing case seen,
                // which is not necessarily the smallest — re-derive by taking the shortest failing input recorded.
                if let Some((case, f)) = minimal.take() {
                    sc.runtime_excluded.insert(f.sig.clone());
                    sc.failures.push((sub.to_string(), case, f));
                }
                remaining = remaining.saturating_sub(done_in_round.max(1));
                round += 1;
            }
        }
    }
}

fn run_enum(prop: &dyn Prop, sub: &str, count: u64, sc: &mut ShardCtx) {
    let mut i = sc.shard;
    while i < count {
        if let Some(case) = prop.gen_enum(sub, i, sc.tier) {
            sc.cases += 1;
            sc.begin_case(&case);
            if let Err(f) = prop.check(sub, &case, sc) {
                if triage(sc, sub, &case, &f, &None) {
                    sc.runtime_excluded.insert(f.sig.clone());
                    let case = f.case.clone().unwrap_or(case);
                    sc.failures.push((sub.to_string(), case, f));
                }
            }
        }
        i += NSHARDS;
    }
}

pub struct WorkerResult {
    pub json: Value,
    pub failures: Vec<(String, Case, Failure)>,
}

/// Run every sub-check of `prop` on 16 shard threads; returns the merged result.
pub fn run_worker(prop: &'static dyn Prop, tier: Tier, seed: u64, only_sub: Option<&str>, corpus: &[(String, Case)]) -> WorkerResult {
    let t0 = Instant::now();
    crate::api::install_hook();
    let shared = Shared::new();
    let known = Known::load(prop.id());
    let subs = prop.subs(tier);
    let mut merged: Vec<ShardOut> = Vec::new();
    let mut exhaustive: BTreeMap<String, bool> = BTreeMap::new();
    let mut per_sub: BTreeMap<String, u64> = BTreeMap::new();
    let mut sub_wall: BTreeMap<String, f64> = BTreeMap::new();

    // watchdog: a shard that does not advance for 20 s makes the run inconclusive (exit 2)
    std::thread::scope(|scope| {
        let shared_ref = &shared;
        scope.spawn(move || {
            let mut last: Vec<(u64, Instant)> = (0..NSHARDS).map(|_| (u64::MAX, Instant::now())).collect();
            while !shared_ref.done.load(Ordering::Relaxed) {
                std::thread::sleep(std::time::Duration::from_millis(250));
                for k in 0..NSHARDS as usize {
                    let hb = shared_ref.heartbeat[k].load(Ordering::Relaxed);
                    if hb != last[k].0 {
                        last[k] = (hb, Instant::now());
                    } else if hb != 0 && hb != u64::MAX - 1 && last[k].1.elapsed().as_secs() >= 20 {
                        let cur = shared_ref.current[k].lock().map(|g| g.clone()).unwrap_or_default();
                        println!("WATCHDOG shard={} stuck for 20s on input {:?}", k, cur);
                        std::process::exit(2);
                    }
                }
            }
        });

        // regression corpus first (shard 0 only)
        {
            let mut sc = ShardCtx::new(prop.id(), 0, tier, &shared, &known);
            for (sub, case) in corpus {
                sc.cases += 1;
                sc.class("corpus-replay");
                sc.begin_case(&case);
                if let Err(f) = prop.check(sub, case, &mut sc) {
                    if triage(&mut sc, sub, case, &f, &None) {
                        sc.runtime_excluded.insert(f.sig.clone());
                        sc.failures.push((sub.clone(), f.case.clone().unwrap_or_else(|| case.clone()), f));
                    }
                }
            }
            merged.push(ShardOut::from(sc));
        }

        for sub in &subs {
            if let Some(o) = only_sub {
                if o != sub.name {
                    continue;
                }
            }
            let handles: Vec<_> = (0..NSHARDS)
                .map(|k| {
                    let shared = &shared;
                    let known = &known;
                    let sub = sub;
                    std::thread::Builder::new()
                        .stack_size(16 << 20)
                        .spawn_scoped(scope, move || {
                            let mut sc = ShardCtx::new(prop.id(), k, tier, shared, known);
                            match sub.kind {
                                SubKind::Random { cases, len } => run_random(prop, sub.name, cases, len, seed, &mut sc),
                                SubKind::Enum { count } => run_enum(prop, sub.name, count, &mut sc),
                            }
                            // idle marker: the watchdog ignores a finished shard
                            shared.heartbeat[k as usize].store(u64::MAX - 1, Ordering::Relaxed);
                            ShardOut::from(sc)
                        })
                        .unwrap()
                })
                .collect();
            let mut sub_cases = 0;
            let sub_t0 = Instant::now();
            for h in handles {
                let o = h.join().expect("shard thread panicked (harness bug)");
                sub_cases += o.cases;
                merged.push(o);
            }
            for k in 0..NSHARDS as usize {
                shared.heartbeat[k].store(0, Ordering::Relaxed);
            }
            per_sub.insert(sub.name.to_string(), sub_cases);
            sub_wall.insert(sub.name.to_string(), (sub_t0.elapsed().as_secs_f64() * 100.0).round() / 100.0);
            if let SubKind::Enum { .. } = sub.kind {
                exhaustive.insert(sub.name.to_string(), true);
            }
        }
        // custom part (single shard context)
        {
            let mut sc = ShardCtx::new(prop.id(), 0, tier, &shared, &known);
            let fails = prop.custom(tier, seed, &mut sc);
            for (case, f) in fails {
                if triage(&mut sc, "custom", &case, &f, &None) {
                    sc.failures.push(("custom".to_string(), case, f));
                }
            }
            merged.push(ShardOut::from(sc));
        }
        shared.done.store(true, Ordering::Relaxed);
    });

    // merge
    let mut evaluations = 0u64;
    let mut cases = 0u64;
    let mut classes: BTreeMap<String, u64> = BTreeMap::new();
    let mut excluded: BTreeMap<String, u64> = BTreeMap::new();
    let mut maxima: BTreeMap<String, u64> = BTreeMap::new();
    let mut known_hits: BTreeMap<String, (u64, String)> = BTreeMap::new();
    let mut samples: Vec<(u64, Value)> = Vec::new();
    let mut first: Vec<Value> = Vec::new();
    let mut failures: Vec<(String, Case, Failure)> = Vec::new();
    let mut side: Vec<String> = Vec::new();
    for o in merged {
        evaluations += o.evaluations;
        cases += o.cases;
        for (k, v) in o.classes {
            *classes.entry(k).or_insert(0) += v;
        }
        for (k, v) in o.excluded {
            *excluded.entry(k).or_insert(0) += v;
        }
        for (k, v) in o.maxima {
            let e = maxima.entry(k).or_insert(0);
            *e = (*e).max(v);
        }
        for (k, v) in o.known_hits {
            let e = known_hits.entry(k).or_insert((0, v.1.clone()));
            e.0 += v.0;
        }
        samples.extend(o.samples);
        if first.len() < 3 {
            first.extend(o.first_samples.into_iter().take(1));
        }
        failures.extend(o.failures);
        side.extend(o.side);
    }
    samples.sort_by_key(|x| x.0);
    samples.dedup_by_key(|x| x.0);
    let mut sample_vals: Vec<Value> = first;
    sample_vals.extend(samples.into_iter().take(SAMPLE_KEEP).map(|x| x.1));
    // one failure per signature
    let mut seen = HashSet::new();
    failures.retain(|(_, _, f)| seen.insert(f.sig.clone()));
    // prefer the shortest input per signature is already the shrunk one per shard; keep first

    let json = json!({
        "evaluations": evaluations,
        "cases": cases,
        "distinct_nontrivial": shared.distinct_count(),
        "classes": classes,
        "excluded": excluded,
        "maxima": maxima,
        "known_hits": known_hits.iter().map(|(k, v)| json!({"entry": k, "hits": v.0, "example": v.1})).collect::<Vec<_>>(),
        "samples": sample_vals,
        "exhaustive_subspaces": exhaustive,
        "cases_per_subcheck": per_sub,
        "wall_s_per_subcheck": sub_wall,
        "violations": failures.len(),
        "wall_s": t0.elapsed().as_secs_f64(),
        "side": side,
    });
    WorkerResult { json, failures }
}

struct ShardOut {
    evaluations: u64,
    cases: u64,
    classes: BTreeMap<String, u64>,
    excluded: BTreeMap<String, u64>,
    maxima: BTreeMap<String, u64>,
    known_hits: BTreeMap<String, (u64, String)>,
    samples: Vec<(u64, Value)>,
    first_samples: Vec<Value>,
    failures: Vec<(String, Case, Failure)>,
    side: Vec<String>,
}

impl<'a> From<ShardCtx<'a>> for ShardOut {
    fn from(sc: ShardCtx<'a>) -> ShardOut {
        ShardOut {
            evaluations: sc.evaluations,
            cases: sc.cases,
            classes: sc.classes,
            excluded: sc.excluded,
            maxima: sc.maxima,
            known_hits: sc.known_hits,
            samples: sc.samples,
            first_samples: sc.first_samples,
            failures: sc.failures,
            side: sc.side,
        }
    }
}

pub fn failure_json(prop: &str, sub: &str, case: &Case, f: &Failure, seed: u64, tier: Tier, profile: &str) -> Value {
    let mut v = case.to_json();
    let o = v.as_object_mut().unwrap();
    o.insert("property".into(), json!(prop));
    o.insert("sub_check".into(), json!(sub));
    o.insert("sig".into(), json!(f.sig));
    o.insert("expected".into(), json!(f.expected));
    o.insert("observed".into(), json!(f.observed));
    o.insert("detail".into(), json!(f.detail));
    o.insert("seed".into(), json!(seed));
    o.insert("tier".into(), json!(tier.name()));
    o.insert("profile".into(), json!(profile));
    v
}
