pub fn fnv(b: &[u8]) -> u64 {
    let mut h: u64 = 0xcbf29ce484222325;
    for x in b {
        h ^= *x as u64;
        h = h.wrapping_mul(0x100000001b3);
    }
    h
}

pub fn mix(a: u64, b: u64) -> u64 {
    let mut z = a ^ b.wrapping_mul(0x9E3779B97F4A7C15);
    z = (z ^ (z >> 30)).wrapping_mul(0xBF58476D1CE4E5B9);
    z = (z ^ (z >> 27)).wrapping_mul(0x94D049BB133111EB);
    z ^ (z >> 31)
}

/// 32-byte seed for proptest's ChaCha RNG derived from (VERIF_SEED, property, sub-check, shard).
pub fn seed_bytes(seed: u64, prop: &str, sub: &str, shard: u64) -> [u8; 32] {
    let mut s = mix(seed, fnv(prop.as_bytes()));
    s = mix(s, fnv(sub.as_bytes()));
    s = mix(s, shard);
    let mut out = [0u8; 32];
    for i in 0..4 {
        s = mix(s, i as u64 + 1);
        out[i * 8..i * 8 + 8].copy_from_slice(&s.to_le_bytes());
    }
    out
}
