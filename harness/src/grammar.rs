//! Reference recogniser + parser: a *stratified* recursive-descent grammar, one non-terminal per
//! precedence level of C04 (the implementation uses precedence climbing). Three-valued verdict.
//!
//! E0 := E1 ('|' E1)*      E1 := E2 ('&' E2)*      E2 := E3 (('<<'|'>>') E3)*
//! E3 := E4 (('+'|'-') E4)*
//! E4 := E5 ( ('*'|'/'|'%') E5 | '°' | 'rad' )*
//! E5 := E6 ( '^' E6 | SUP ('!' [J])* )*
//! E6 := ('+'|'-') E6 | E7
//! E7 := P ('!' [J])*
//! P  := NUM [J] | GROUP [J] | CALL [J] | CONST | '@'
//! J  := (next token in { '(' '⌊' '⌈' function-name NUM }) E5
//! GROUP := '(' E0 ')' | '⌊' E0 '⌋' | '⌈' E0 '⌉'      CALL := name '(' args ')'

use crate::api::Ev;
use crate::lex::{lex, Tok};
use crate::vocab::{self, Arity};

#[derive(Clone, Copy, Debug, PartialEq, Eq, Hash)]
pub enum BinOp {
    Add,
    Sub,
    Mul,
    Div,
    Mod,
    Pow,
    And,
    Or,
    Shl,
    Shr,
}

impl BinOp {
    pub fn text(self) -> &'static str {
        match self {
            BinOp::Add => "+",
            BinOp::Sub => "-",
            BinOp::Mul => "*",
            BinOp::Div => "/",
            BinOp::Mod => "%",
            BinOp::Pow => "^",
            BinOp::And => "&",
            BinOp::Or => "|",
            BinOp::Shl => "<<",
            BinOp::Shr => ">>",
        }
    }
    /// precedence level (loosest 0 … tightest 5), as in C04
    pub fn level(self) -> u8 {
        match self {
            BinOp::Or => 0,
            BinOp::And => 1,
            BinOp::Shl | BinOp::Shr => 2,
            BinOp::Add | BinOp::Sub => 3,
            BinOp::Mul | BinOp::Div | BinOp::Mod => 4,
            BinOp::Pow => 5,
        }
    }
    pub fn for_ev(ev: Ev) -> Vec<BinOp> {
        use BinOp::*;
        match ev {
            Ev::I64 => vec![Add, Sub, Mul, Div, Mod, Pow, And, Or, Shl, Shr],
            Ev::Cpx => vec![Add, Sub, Mul, Div, Pow],
            _ => vec![Add, Sub, Mul, Div, Mod, Pow],
        }
    }
}

#[derive(Clone, Copy, Debug, PartialEq, Eq, Hash)]
pub enum Br {
    Round,
    Floor,
    Ceil,
}

impl Br {
    pub fn open(self) -> &'static str {
        match self {
            Br::Round => "(",
            Br::Floor => "⌊",
            Br::Ceil => "⌈",
        }
    }
    pub fn close(self) -> &'static str {
        match self {
            Br::Round => ")",
            Br::Floor => "⌋",
            Br::Ceil => "⌉",
        }
    }
}

/// Expression tree; faithful to the spelling (render(parse(s)) == strip_ws(s)).
#[derive(Clone, Debug, PartialEq)]
pub enum E {
    Lit(String),
    Const(&'static str),
    Ans,
    Neg(Box<E>),
    Pos(Box<E>),
    Bin(BinOp, Box<E>, Box<E>),
    /// base, superscript digits (ASCII)
    Sup(Box<E>, String),
    Fact(Box<E>),
    Deg(Box<E>),
    Rad(Box<E>),
    Group(Br, Box<E>),
    /// spelling, arguments
    Call(&'static str, Vec<E>),
    /// implicit product A R
    Juxt(Box<E>, Box<E>),
}

#[derive(Clone, Debug, PartialEq)]
pub enum Verdict {
    Accept(E),
    Reject,
    /// no property speaks about this input (see DESIGN.md §3.5)
    DontCare(&'static str),
}

impl Verdict {
    pub fn accepted(&self) -> Option<&E> {
        match self {
            Verdict::Accept(e) => Some(e),
            _ => None,
        }
    }
}

struct P<'a> {
    ev: Ev,
    t: &'a [Tok],
    i: usize,
    depth: usize,
}

type R = Result<E, ()>;

impl<'a> P<'a> {
    fn peek(&self) -> Option<&Tok> {
        self.t.get(self.i)
    }
    fn eat(&mut self, t: &Tok) -> bool {
        if self.peek() == Some(t) {
            self.i += 1;
            true
        } else {
            false
        }
    }
    fn binlevel(&mut self, lvl: u8) -> R {
        // levels 0..=3 are plain left-associative chains
        if lvl == 4 {
            return self.e4();
        }
        let mut left = self.binlevel(lvl + 1)?;
        loop {
            let op = match (lvl, self.peek()) {
                (0, Some(Tok::Bar)) => BinOp::Or,
                (1, Some(Tok::Amp)) => BinOp::And,
                (2, Some(Tok::Shl)) => BinOp::Shl,
                (2, Some(Tok::Shr)) => BinOp::Shr,
                (3, Some(Tok::Plus)) => BinOp::Add,
                (3, Some(Tok::Minus)) => BinOp::Sub,
                _ => break,
            };
            self.i += 1;
            let right = self.binlevel(lvl + 1)?;
            left = E::Bin(op, Box::new(left), Box::new(right));
        }
        Ok(left)
    }
    fn e0(&mut self) -> R {
        self.depth += 1;
        if self.depth > 2000 {
            return Err(());
        }
        let r = self.binlevel(0);
        self.depth -= 1;
        r
    }
    fn e4(&mut self) -> R {
        let mut left = self.e5()?;
        loop {
            match self.peek() {
                Some(Tok::Star) | Some(Tok::Slash) | Some(Tok::Percent) => {
                    let op = match self.peek() {
                        Some(Tok::Star) => BinOp::Mul,
                        Some(Tok::Slash) => BinOp::Div,
                        _ => BinOp::Mod,
                    };
                    self.i += 1;
                    let right = self.e5()?;
                    left = E::Bin(op, Box::new(left), Box::new(right));
                }
                Some(Tok::Deg) => {
                    self.i += 1;
                    left = E::Deg(Box::new(left));
                }
                Some(Tok::Rad) => {
                    self.i += 1;
                    left = E::Rad(Box::new(left));
                }
                _ => break,
            }
        }
        Ok(left)
    }
    fn e5(&mut self) -> R {
        let mut left = self.e6()?;
        loop {
            match self.peek() {
                Some(Tok::Caret) => {
                    self.i += 1;
                    let right = self.e6()?;
                    left = E::Bin(BinOp::Pow, Box::new(left), Box::new(right));
                }
                Some(Tok::Sup(d)) => {
                    let d = d.clone();
                    self.i += 1;
                    left = E::Sup(Box::new(left), d);
                    while self.peek() == Some(&Tok::Bang) {
                        self.i += 1;
                        left = E::Fact(Box::new(left));
                        left = self.juxt(left)?;
                    }
                }
                _ => break,
            }
        }
        Ok(left)
    }
    fn e6(&mut self) -> R {
        self.depth += 1;
        if self.depth > 2000 {
            return Err(());
        }
        let r = match self.peek() {
            Some(Tok::Minus) => {
                self.i += 1;
                self.e6().map(|e| E::Neg(Box::new(e)))
            }
            Some(Tok::Plus) => {
                self.i += 1;
                self.e6().map(|e| E::Pos(Box::new(e)))
            }
            _ => self.e7(),
        };
        self.depth -= 1;
        r
    }
    fn e7(&mut self) -> R {
        let mut left = self.p()?;
        while self.peek() == Some(&Tok::Bang) {
            self.i += 1;
            left = E::Fact(Box::new(left));
            left = self.juxt(left)?;
        }
        Ok(left)
    }
    /// optional implicit product after `a`
    fn juxt(&mut self, a: E) -> R {
        match self.peek() {
            Some(Tok::LP) | Some(Tok::LF) | Some(Tok::LC) | Some(Tok::Func(_)) | Some(Tok::Num(_)) => {
                let r = self.e5()?;
                Ok(E::Juxt(Box::new(a), Box::new(r)))
            }
            _ => Ok(a),
        }
    }
    fn group(&mut self, br: Br) -> R {
        // opening bracket already consumed
        let inner = self.e0()?;
        let close = match br {
            Br::Round => Tok::RP,
            Br::Floor => Tok::RF,
            Br::Ceil => Tok::RC,
        };
        if !self.eat(&close) {
            return Err(());
        }
        Ok(E::Group(br, Box::new(inner)))
    }
    fn p(&mut self) -> R {
        let t = self.peek().cloned().ok_or(())?;
        self.i += 1;
        match t {
            Tok::Num(s) => self.juxt(E::Lit(s)),
            Tok::Const(c) => Ok(E::Const(c)),
            Tok::Ans => Ok(E::Ans),
            Tok::LP => {
                let g = self.group(Br::Round)?;
                self.juxt(g)
            }
            Tok::LF => {
                let g = self.group(Br::Floor)?;
                self.juxt(g)
            }
            Tok::LC => {
                let g = self.group(Br::Ceil)?;
                self.juxt(g)
            }
            Tok::Func(name) => {
                let f = vocab::func(self.ev, name).ok_or(())?;
                if !self.eat(&Tok::LP) {
                    return Err(());
                }
                let mut args = Vec::new();
                if self.peek() == Some(&Tok::RP) {
                    self.i += 1;
                } else {
                    loop {
                        args.push(self.e0()?);
                        if self.eat(&Tok::Comma) {
                            continue;
                        }
                        if self.eat(&Tok::RP) {
                            break;
                        }
                        return Err(());
                    }
                }
                let ok = match f.arity {
                    Arity::One => args.len() == 1,
                    Arity::Two => args.len() == 2,
                    Arity::Var1 => !args.is_empty(),
                    Arity::Var0 => true,
                };
                if !ok {
                    return Err(());
                }
                self.juxt(E::Call(name, args))
            }
            _ => Err(()),
        }
    }
}

/// Can the evaluator's type hold this literal exactly-as-specified? (else DontCare)
pub fn literal_holdable(ev: Ev, lit: &str, is_sup: bool) -> bool {
    let body = lit.trim_end_matches('i');
    match ev {
        Ev::F64 | Ev::Cpx => true,
        Ev::I64 => body.parse::<i64>().is_ok(),
        Ev::Num => {
            if is_sup || !body.contains('.') {
                body.parse::<i64>().is_ok()
            } else {
                true
            }
        }
        Ev::Dec => {
            // exactly representable: coefficient < 2^96 at a scale <= 28 after dropping trailing zeros
            let (ip, fp) = match body.split_once('.') {
                Some((a, b)) => (a, b),
                None => (body, ""),
            };
            let fp = fp.trim_end_matches('0');
            if fp.len() > 28 {
                return false;
            }
            let digits = format!("{}{}", ip, fp);
            let digits = digits.trim_start_matches('0');
            if digits.len() > 29 {
                return false;
            }
            if digits.is_empty() {
                return true;
            }
            // compare with 2^96 = 79228162514264337593543950336
            let lim = "79228162514264337593543950336";
            digits.len() < lim.len() || digits < lim
        }
    }
}

/// Inputs about which no property speaks (DESIGN.md §3.5): literal–literal adjacency, literals the type
/// cannot hold, and `°` / `rad` directly followed by `^`, a superscript or `!`.
pub fn dont_care(ev: Ev, ts: &[Tok]) -> Option<&'static str> {
    for w in ts.windows(2) {
        if let (Tok::Num(_), Tok::Num(_)) = (&w[0], &w[1]) {
            return Some("literal-literal adjacency");
        }
        if matches!(w[0], Tok::Deg | Tok::Rad) && matches!(w[1], Tok::Caret | Tok::Sup(_) | Tok::Bang) {
            return Some("deg/rad followed by a tighter operator");
        }
    }
    for t in ts {
        match t {
            Tok::Num(s) if !literal_holdable(ev, s, false) => return Some("literal the type cannot hold"),
            Tok::Sup(s) if !literal_holdable(ev, s, true) => return Some("superscript the type cannot hold"),
            _ => {}
        }
    }
    None
}

pub fn parse_tokens(ev: Ev, ts: &[Tok]) -> Verdict {
    if let Some(why) = dont_care(ev, ts) {
        return Verdict::DontCare(why);
    }
    let mut p = P { ev, t: ts, i: 0, depth: 0 };
    match p.e0() {
        Ok(e) if p.i == ts.len() => Verdict::Accept(e),
        _ => Verdict::Reject,
    }
}

/// Full reference front end: string → verdict.
pub fn recognise(ev: Ev, input: &str) -> Verdict {
    match lex(ev, input) {
        Err(()) => {
            // a lexical error next to a literal–literal adjacency is still a rejectable input,
            // but the implementation may legitimately stop earlier; both give Err unless the
            // adjacency region is reached first. Err is what Reject demands, so Reject is safe
            // only if the implementation cannot return Ok: it cannot, every token must lex.
            Verdict::Reject
        }
        Ok(ts) => parse_tokens(ev, &ts),
    }
}

// ---------------------------------------------------------------------------------------------
// rendering

pub fn render(e: &E) -> String {
    let mut s = String::new();
    render_into(e, &mut s);
    s
}

fn render_into(e: &E, s: &mut String) {
    match e {
        E::Lit(t) => s.push_str(t),
        E::Const(c) => s.push_str(c),
        E::Ans => s.push('@'),
        E::Neg(a) => {
            s.push('-');
            render_into(a, s)
        }
        E::Pos(a) => {
            s.push('+');
            render_into(a, s)
        }
        E::Bin(op, a, b) => {
            render_into(a, s);
            s.push_str(op.text());
            render_into(b, s)
        }
        E::Sup(a, d) => {
            render_into(a, s);
            s.push_str(&vocab::ascii_to_sup(d))
        }
        E::Fact(a) => {
            render_into(a, s);
            s.push('!')
        }
        E::Deg(a) => {
            render_into(a, s);
            s.push('°')
        }
        E::Rad(a) => {
            render_into(a, s);
            s.push_str("rad")
        }
        E::Group(br, a) => {
            s.push_str(br.open());
            render_into(a, s);
            s.push_str(br.close())
        }
        E::Call(n, args) => {
            s.push_str(n);
            s.push('(');
            for (i, a) in args.iter().enumerate() {
                if i > 0 {
                    s.push(',');
                }
                render_into(a, s);
            }
            s.push(')')
        }
        E::Juxt(a, b) => {
            render_into(a, s);
            render_into(b, s)
        }
    }
}

/// Fully bracketed rendering: every node wrapped in round brackets, every product explicit,
/// superscripts written `^(N)`. Independent of precedence, associativity and juxtaposition rules.
pub fn render_full(e: &E) -> String {
    match e {
        E::Lit(t) => format!("({})", t),
        E::Const(c) => format!("({})", c),
        E::Ans => "(@)".to_string(),
        E::Neg(a) => format!("(-{})", render_full(a)),
        E::Pos(a) => format!("(+{})", render_full(a)),
        E::Bin(op, a, b) => format!("({}{}{})", render_full(a), op.text(), render_full(b)),
        E::Sup(a, d) => format!("({}^({}))", render_full(a), d),
        E::Fact(a) => format!("({}!)", render_full(a)),
        E::Deg(a) => format!("({}°)", render_full(a)),
        E::Rad(a) => format!("({}rad)", render_full(a)),
        E::Group(br, a) => format!("({}{}{})", br.open(), render_full(a), br.close()),
        E::Call(n, args) => {
            let a: Vec<String> = args.iter().map(render_full).collect();
            format!("({}({}))", n, a.join(","))
        }
        E::Juxt(a, b) => format!("({}*{})", render_full(a), render_full(b)),
    }
}

/// Like `render_full`, but every operator node is additionally multiplied by 1 (`((a+b)*1)`): an implementation that
/// looks through brackets at the shape of the operand (folding, fusing, cancelling nodes) cannot recognise the shape
/// any more, while the value is unchanged (x*1 = x exactly in f64, i64, Decimal and Number; not used for complex).
pub fn render_opaque(e: &E) -> String {
    let w = |s: String| format!("(({})*1)", s);
    match e {
        E::Lit(t) => format!("({})", t),
        E::Const(c) => format!("({})", c),
        E::Ans => "(@)".to_string(),
        E::Neg(a) => w(format!("-{}", render_opaque(a))),
        E::Pos(a) => w(format!("+{}", render_opaque(a))),
        E::Bin(op, a, b) => w(format!("{}{}{}", render_opaque(a), op.text(), render_opaque(b))),
        E::Sup(a, d) => w(format!("{}^({})", render_opaque(a), d)),
        E::Fact(a) => w(format!("{}!", render_opaque(a))),
        E::Deg(a) => w(format!("{}°", render_opaque(a))),
        E::Rad(a) => w(format!("{}rad", render_opaque(a))),
        E::Group(br, a) => format!("({}{}{})", br.open(), render_opaque(a), br.close()),
        E::Call(n, args) => {
            let a: Vec<String> = args.iter().map(render_opaque).collect();
            w(format!("{}({})", n, a.join(",")))
        }
        E::Juxt(a, b) => w(format!("{}*{}", render_opaque(a), render_opaque(b))),
    }
}

pub fn size(e: &E) -> usize {
    match e {
        E::Lit(_) | E::Const(_) | E::Ans => 1,
        E::Neg(a) | E::Pos(a) | E::Fact(a) | E::Deg(a) | E::Rad(a) | E::Group(_, a) | E::Sup(a, _) => 1 + size(a),
        E::Bin(_, a, b) | E::Juxt(a, b) => 1 + size(a) + size(b),
        E::Call(_, args) => 1 + args.iter().map(size).sum::<usize>(),
    }
}

/// Number of operator / function nodes (brackets and leaves do not count).
pub fn op_count(e: &E) -> usize {
    match e {
        E::Lit(_) | E::Const(_) | E::Ans => 0,
        E::Group(_, a) => {
            (if let E::Group(Br::Round, _) = e { 0 } else { 1 }) + op_count(a)
        }
        E::Neg(a) | E::Pos(a) | E::Fact(a) | E::Deg(a) | E::Rad(a) | E::Sup(a, _) => 1 + op_count(a),
        E::Bin(_, a, b) | E::Juxt(a, b) => 1 + op_count(a) + op_count(b),
        E::Call(_, args) => 1 + args.iter().map(op_count).sum::<usize>(),
    }
}

pub fn count_ans(e: &E) -> usize {
    match e {
        E::Ans => 1,
        E::Lit(_) | E::Const(_) => 0,
        E::Neg(a) | E::Pos(a) | E::Fact(a) | E::Deg(a) | E::Rad(a) | E::Group(_, a) | E::Sup(a, _) => count_ans(a),
        E::Bin(_, a, b) | E::Juxt(a, b) => count_ans(a) + count_ans(b),
        E::Call(_, args) => args.iter().map(count_ans).sum(),
    }
}

pub fn has_juxt(e: &E) -> bool {
    match e {
        E::Juxt(_, _) => true,
        E::Lit(_) | E::Const(_) | E::Ans => false,
        E::Neg(a) | E::Pos(a) | E::Fact(a) | E::Deg(a) | E::Rad(a) | E::Group(_, a) | E::Sup(a, _) => has_juxt(a),
        E::Bin(_, a, b) => has_juxt(a) || has_juxt(b),
        E::Call(_, args) => args.iter().any(has_juxt),
    }
}

/// Apply `f` to every node (pre-order).
pub fn walk<'a>(e: &'a E, f: &mut dyn FnMut(&'a E)) {
    f(e);
    match e {
        E::Lit(_) | E::Const(_) | E::Ans => {}
        E::Neg(a) | E::Pos(a) | E::Fact(a) | E::Deg(a) | E::Rad(a) | E::Group(_, a) | E::Sup(a, _) => walk(a, f),
        E::Bin(_, a, b) | E::Juxt(a, b) => {
            walk(a, f);
            walk(b, f)
        }
        E::Call(_, args) => {
            for a in args {
                walk(a, f)
            }
        }
    }
}

/// Rebuild the tree bottom-up with `f` applied to every rebuilt node; `f` receives the node index in
/// pre-order numbering of the *original* tree.
pub fn map_nodes(e: &E, counter: &mut usize, f: &mut dyn FnMut(usize, E) -> E) -> E {
    let idx = *counter;
    *counter += 1;
    let b = |x: E| Box::new(x);
    let rebuilt = match e {
        E::Lit(_) | E::Const(_) | E::Ans => e.clone(),
        E::Neg(a) => E::Neg(b(map_nodes(a, counter, f))),
        E::Pos(a) => E::Pos(b(map_nodes(a, counter, f))),
        E::Fact(a) => E::Fact(b(map_nodes(a, counter, f))),
        E::Deg(a) => E::Deg(b(map_nodes(a, counter, f))),
        E::Rad(a) => E::Rad(b(map_nodes(a, counter, f))),
        E::Group(br, a) => E::Group(*br, b(map_nodes(a, counter, f))),
        E::Sup(a, d) => E::Sup(b(map_nodes(a, counter, f)), d.clone()),
        E::Bin(op, x, y) => {
            let x2 = map_nodes(x, counter, f);
            let y2 = map_nodes(y, counter, f);
            E::Bin(*op, b(x2), b(y2))
        }
        E::Juxt(x, y) => {
            let x2 = map_nodes(x, counter, f);
            let y2 = map_nodes(y, counter, f);
            E::Juxt(b(x2), b(y2))
        }
        E::Call(n, args) => E::Call(n, args.iter().map(|a| map_nodes(a, counter, f)).collect()),
    };
    f(idx, rebuilt)
}
