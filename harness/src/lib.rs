//! scverif — property-based verification harness for string_calculator (library part, shared by the
//! `scverif` binary and the cargo-fuzz targets).
#![allow(dead_code)]

pub mod api;
pub mod big;
pub mod choice;
pub mod gen;
pub mod grammar;
pub mod lex;
pub mod props;
pub mod refeval;
pub mod run;
pub mod util;
pub mod vocab;
