//! scverif — property-based verification harness for string_calculator.
//!   scverif worker <ID> --tier quick|thorough --seed N [--sub NAME]   (prints RESULT/FAILURE lines)
//!   scverif replay <file.json>                                        (re-checks one stored case)
//!   scverif eval <evaluator> <placeholder-enc> <input>               (one raw call; used for crash triage)

use scverif::{api, choice, props, run, util};
use scverif::run::Tier as _TierAlias;

use run::{Case, Tier};
use serde_json::Value;

fn arg_after(args: &[String], key: &str) -> Option<String> {
    args.iter().position(|a| a == key).and_then(|i| args.get(i + 1).cloned())
}

fn load_corpus(id: &str) -> Vec<(String, Case)> {
    let dir = std::env::var("SCVERIF_CORPUS").unwrap_or_else(|_| "/verif/corpus".to_string());
    let mut out = Vec::new();
    let mut names: Vec<_> = match std::fs::read_dir(format!("{}/{}", dir, id)) {
        Ok(rd) => rd.filter_map(|e| e.ok()).map(|e| e.path()).collect(),
        Err(_) => return out,
    };
    names.sort();
    for p in names {
        if p.extension().map(|e| e == "json").unwrap_or(false) {
            if let Ok(text) = std::fs::read_to_string(&p) {
                if let Ok(v) = serde_json::from_str::<Value>(&text) {
                    if let Some(c) = Case::from_json(&v) {
                        let sub = v.get("sub_check").and_then(|s| s.as_str()).unwrap_or("").to_string();
                        out.push((sub, c));
                    }
                }
            }
        }
    }
    out
}

fn main() {
    let args: Vec<String> = std::env::args().collect();
    if args.len() < 2 {
        eprintln!("usage: scverif worker|replay|eval ...");
        std::process::exit(2);
    }
    match args[1].as_str() {
        "worker" => {
            let id = args.get(2).cloned().unwrap_or_default();
            let tier = match arg_after(&args, "--tier").as_deref() {
                Some("thorough") => Tier::Thorough,
                _ => Tier::Quick,
            };
            let seed: u64 = arg_after(&args, "--seed").and_then(|s| s.parse().ok()).unwrap_or(0);
            let sub = arg_after(&args, "--sub");
            let prop = match props::by_id(&id) {
                Some(p) => p,
                None => {
                    eprintln!("unknown property {}", id);
                    std::process::exit(2);
                }
            };
            let corpus = load_corpus(&id);
            let profile = std::env::var("SCVERIF_PROFILE").unwrap_or_else(|_| "rel".into());
            let res = run::run_worker(prop, tier, seed, sub.as_deref(), &corpus);
            for (sub, case, f) in &res.failures {
                println!("FAILURE {}", run::failure_json(&id, sub, case, f, seed, tier, &profile));
            }
            let mut j = res.json;
            j.as_object_mut().unwrap().insert("rule".into(), Value::String(prop.rule()));
            j.as_object_mut().unwrap().insert("assumptions".into(), serde_json::json!(prop.assumptions()));
            j.as_object_mut().unwrap().insert("profile".into(), Value::String(profile));
            println!("RESULT {}", j);
        }
        "replay" => {
            let path = args.get(2).cloned().unwrap_or_default();
            let text = std::fs::read_to_string(&path).unwrap_or_else(|e| {
                eprintln!("cannot read {}: {}", path, e);
                std::process::exit(2)
            });
            let v: Value = serde_json::from_str(&text).unwrap_or_else(|e| {
                eprintln!("bad json: {}", e);
                std::process::exit(2)
            });
            let id = v.get("property").and_then(|s| s.as_str()).unwrap_or("").to_string();
            let sub = v.get("sub_check").and_then(|s| s.as_str()).unwrap_or("").to_string();
            let case = Case::from_json(&v).unwrap_or_else(|| {
                eprintln!("not a case file");
                std::process::exit(2)
            });
            let prop = props::by_id(&id).unwrap_or_else(|| {
                eprintln!("unknown property {}", id);
                std::process::exit(2)
            });
            api::install_hook();
            let shared = run::Shared::new();
            let known = run::Known::default();
            let mut sc = run::ShardCtx::new(prop.id(), 0, Tier::Quick, &shared, &known);
            println!("replaying {} sub={} evaluator={} input={:?} placeholder={}", id, sub, case.ev.name(), case.input, case.ph.show());
            match prop.check(&sub, &case, &mut sc) {
                Ok(()) => {
                    println!("PASS property={} (the stored case no longer violates the property)", id);
                }
                Err(f) => {
                    println!("sig={} expected={} observed={} {}", f.sig, f.expected, f.observed, f.detail);
                    println!("VIOLATION property={} replay={}", id, path);
                    std::process::exit(1);
                }
            }
        }
        "eval" => {
            let ev = api::Ev::from_name(&args[2]).expect("evaluator");
            let ph = api::Val::dec(&args[3]).expect("placeholder");
            let m = api::eval_measured(ev, &args[4], &ph, api::DEFAULT_BUDGET);
            println!("{} steps={} loop_steps={}", m.outcome.show(), m.steps, m.loop_steps);
        }
        "eval1" => {
            // exactly one call in a fresh process; prints the encoded outcome (C16 baseline)
            let ev = api::Ev::from_name(&args[2]).expect("evaluator");
            let ph = api::Val::dec(&args[3]).expect("placeholder");
            println!("{}", api::eval(ev, &args[4], &ph).enc());
        }
        "coldstart" => {
            // 16 threads released together: each makes the given call first, then every cold-start expression (rotated)
            let ev0 = api::Ev::from_name(&args[2]).expect("evaluator");
            let first = args[3].clone();
            let all = props::c16::cold_start_exprs();
            let barrier = std::sync::Arc::new(std::sync::Barrier::new(16));
            let mut hs = Vec::new();
            for t in 0..16usize {
                let (b, first, all) = (barrier.clone(), first.clone(), all.clone());
                hs.push(std::thread::Builder::new().stack_size(8 << 20).spawn(move || {
                    let mut out = Vec::new();
                    b.wait();
                    out.push(format!("{}\t{}\t{}\t{}", t, ev0.name(), first, api::eval(ev0, &first, &api::Val::default_for(ev0)).enc()));
                    for k in 0..all.len() {
                        let (ev, x) = all[(k + t * 3) % all.len()];
                        out.push(format!("{}\t{}\t{}\t{}", t, ev.name(), x, api::eval(ev, x, &api::Val::default_for(ev)).enc()));
                    }
                    out
                }).unwrap());
            }
            for h in hs {
                for l in h.join().unwrap() {
                    println!("{}", l);
                }
            }
        }
        "c18cases" => {
            // (bits, expected probe line) pairs for the feature stage of C18: Number::from in builds with fewer features
            use proptest::strategy::{Strategy, ValueTree};
            let seed: u64 = arg_after(&args, "--seed").and_then(|s| s.parse().ok()).unwrap_or(0);
            let count: u64 = arg_after(&args, "--count").and_then(|s| s.parse().ok()).unwrap_or(20000);
            let prop = props::by_id("C18").unwrap();
            let mut inputs: Vec<String> = Vec::new();
            let n = prop.subs(Tier::Quick).iter().find(|s| s.name == "boundary").map(|s| if let run::SubKind::Enum { count } = s.kind { count } else { 0 }).unwrap_or(0);
            for i in 0..n {
                if let Some(c) = prop.gen_enum("boundary", i, Tier::Quick) {
                    inputs.push(c.input);
                }
            }
            let cfg = proptest::test_runner::Config { failure_persistence: None, ..Default::default() };
            let rng = proptest::test_runner::TestRng::from_seed(proptest::test_runner::RngAlgorithm::ChaCha, &util::seed_bytes(seed, "C18", "features", 0));
            let mut runner = proptest::test_runner::TestRunner::new_with_rng(cfg, rng);
            let strat = proptest::collection::vec(proptest::prelude::any::<u16>(), 6..=6);
            for k in 0..count {
                let seq = strat.new_tree(&mut runner).unwrap().current();
                let mut c = choice::Seq::new(&seq);
                if let Some(case) = prop.gen(if k % 2 == 0 { "random" } else { "random-exp" }, &mut c) {
                    inputs.push(case.input);
                }
            }
            for i in inputs {
                if let Ok(bits) = u64::from_str_radix(i.trim_start_matches("0x"), 16) {
                    let want = match props::c18::classify(bits) {
                        Ok(n) => format!("ok numi:{}", n),
                        Err(()) => format!("ok numf:{:#018x}", bits),
                    };
                    println!("{}\t{}", i, want);
                }
            }
        }
        "gencases" => {
            // case file for C17 (feature subsets): regression corpus + seeded random expressions per evaluator
            use proptest::strategy::{Strategy, ValueTree};
            let seed: u64 = arg_after(&args, "--seed").and_then(|s| s.parse().ok()).unwrap_or(0);
            let count: u64 = arg_after(&args, "--count").and_then(|s| s.parse().ok()).unwrap_or(2000);
            let mut lines: Vec<String> = Vec::new();
            let mut push = |ev: api::Ev, ph: &api::Val, input: &str| {
                lines.push(format!("{}\t{}\t{}", ev.name(), ph.enc(), serde_json::to_string(input).unwrap()));
            };
            for id in ["C01", "C02", "C03", "C09", "C11", "C15", "C18"] {
                for (_, c) in load_corpus(id) {
                    if c.ph.fits(c.ev) && !c.input.starts_with("0x") && !c.input.starts_with("history") {
                        push(c.ev, &c.ph, &c.input);
                    }
                }
            }
            for ev in api::Ev::ALL {
                for s in ["1+2*3", "(2+3)/2", "2^3!", "-2^2", "6/2(3)", "2(3)^2(4)", "min(1,2,3)", "avg()", "5!", "sqrt(16)", "abs(-3)+pow(2,10)", "1<<2+1", "6&3|1", "2²+3³", "⌊2.5⌋+⌈2.5⌉", "pi*e", "90°", "1rad", "(1+2i)*(3-i)", "w(1)", "ilog(100,10)", "@+1", "1)", "2pi"] {
                    push(ev, &api::Val::default_for(ev), s);
                }
            }
            // boundary blocks of the other properties (thinned): feature-dependent code paths tend to differ exactly there
            for (id, sub, stride) in [("C09", "binary", 5u64), ("C09", "unary", 1), ("C06", "binary", 5), ("C10", "grid", 2), ("C05", "unary", 1), ("C05", "binary", 9), ("C11", "large", 11), ("C12", "short", 13), ("C07", "binary", 7), ("C04", "enum2", 37), ("C18", "boundary", 3)] {
                let prop = props::by_id(id).unwrap();
                let count = prop.subs(Tier::Quick).iter().find(|s| s.name == sub).map(|s| if let run::SubKind::Enum { count } = s.kind { count } else { 0 }).unwrap_or(0);
                let mut i = 0;
                while i < count {
                    if let Some(c) = prop.gen_enum(sub, i, Tier::Quick) {
                        if id == "C18" {
                            // Number::from is reached through eval_number: write the double as a literal where possible
                            if let Ok(bits) = u64::from_str_radix(c.input.trim_start_matches("0x"), 16) {
                                if let Some(e) = props::common::f64_expr(f64::from_bits(bits)) {
                                    let e = if e.contains('.') || e.contains('/') { e } else { format!("{}.0", e) };
                                    push(api::Ev::Num, &api::Val::NI(0), &format!("floor({})+0", e));
                                    push(api::Ev::Num, &api::Val::NI(0), &format!("{}*1", e));
                                }
                            }
                        } else {
                            push(c.ev, &c.ph, &c.input);
                        }
                    }
                    i += stride;
                }
            }
            for ev in api::Ev::ALL {
                let d = api::Val::default_for(ev);
                // dense factorial grid, well beyond the range other properties look at
                if scverif::vocab::has_fact(ev) && ev != api::Ev::I64 {
                    let mut x = -180.0f64;
                    while x <= 180.0 {
                        push(ev, &d, &format!("({})!", if x < 0.0 { format!("-{}", -x) } else { format!("{}", x) }));
                        x += 0.25;
                    }
                }
                // zero-padded superscript runs and literals of many digits
                for k in [1usize, 5, 17, 18, 19, 20, 21, 28, 29, 30, 40, 100, 308, 309, 310, 400] {
                    push(ev, &d, &format!("2{}³", "⁰".repeat(k)));
                    push(ev, &d, &format!("2^{}3", "0".repeat(k)));
                    push(ev, &d, &format!("{}42+1", "0".repeat(k)));
                }
                for s in ["2^63", "2^64", "9223372036854775807+1", "floor(9223372036854775808.0)", "9007199254740993*1", "(-9223372036854775807-1)/(-1)", "3037000500*3037000500", "2097152^3", "pow(2,0.5)", "10^23", "10²³", "1°", "1rad", "w(1)", "ilog(100,1.2)"] {
                    push(ev, &d, s);
                }
                // every one-argument function on integers at and beyond 2^53 that are next to squares, cubes and powers
                for f in scverif::vocab::funcs(ev) {
                    if f.arity == scverif::vocab::Arity::One && f.canon != "w" {
                        for a in ["4611686018427387905", "4611686018427387904", "10000000000000001", "72057594037927937", "9007199254740993", "9223372036854775807", "1000000000000000000", "4503599627370497", "27000000000000000001", "(0-4611686018427387905)"] {
                            push(ev, &d, &format!("{}({})", f.name, a));
                            push(ev, &d, &format!("2*{}({})+1", f.name, a));
                        }
                    }
                }
                for (lev, s) in props::long::all(false).iter() {
                    if *lev == ev && s.len() % 5 == 0 {
                        push(ev, &d, s);
                    }
                }
            }
            let cfg = proptest::test_runner::Config { failure_persistence: None, ..Default::default() };
            let rng = proptest::test_runner::TestRng::from_seed(proptest::test_runner::RngAlgorithm::ChaCha, &util::seed_bytes(seed, "C17", "cases", 0));
            let mut runner = proptest::test_runner::TestRunner::new_with_rng(cfg, rng);
            let strat = proptest::collection::vec(proptest::prelude::any::<u16>(), 100..160);
            let c01 = props::by_id("C01").unwrap();
            let c12 = props::by_id("C12").unwrap();
            let mut n = 0;
            while n < count {
                let seq = strat.new_tree(&mut runner).unwrap().current();
                let mut c = choice::Seq::new(&seq);
                let case = match n % 4 {
                    0 => c01.gen("mutant", &mut c),
                    1 => c12.gen("tree", &mut c),
                    _ => c01.gen("tree", &mut c),
                };
                if let Some(case) = case {
                    push(case.ev, &case.ph, &case.input);
                }
                n += 1;
            }
            let mut extra: Vec<String> = Vec::new();
            // ilog at exact power thresholds for every base up to 2000 (two formulas for the same quotient disagree at a
            // sparse set of bases)
            for k in 2..=2000u64 {
                for ev in [api::Ev::Num, api::Ev::F64] {
                    extra.push(format!("{}\t{}\t{}", ev.name(), api::Val::default_for(ev).enc(), serde_json::to_string(&format!("ilog({},{})", k * k, k)).unwrap()));
                    if k <= 200 {
                        extra.push(format!("{}\t{}\t{}", ev.name(), api::Val::default_for(ev).enc(), serde_json::to_string(&format!("ilog({},{})", k * k * k, k)).unwrap()));
                        extra.push(format!("{}\t{}\t{}", ev.name(), api::Val::default_for(ev).enc(), serde_json::to_string(&format!("log({},{})", k * k, k)).unwrap()));
                    }
                }
            }
            // the placeholder in every representation and magnitude for a few @ forms (conversions of the placeholder at the
            // public boundary may depend on the build)
            for form in ["@", "@+1", "@*3", "@%7", "-@", "@/2", "@^2", "max(@,1)", "floor(@)", "2*@-@"] {
                for ev in api::Ev::ALL {
                    for ph in props::common::ph_pool(ev) {
                        extra.push(format!("{}\t{}\t{}", ev.name(), ph.enc(), serde_json::to_string(form).unwrap()));
                    }
                    if ev == api::Ev::Num {
                        for f in [1e18f64, 9007199254740992.0, 4611686018427387904.0, -1e18, 9007199254740994.0, 1e15, 123456789012345680.0] {
                            extra.push(format!("number\t{}\t{}", api::Val::NF(f).enc(), serde_json::to_string(form).unwrap()));
                        }
                    }
                }
            }
            // Number::from on the structured boundary set (pseudo-evaluator "numberfrom": bits in the input field)
            {
                let prop = props::by_id("C18").unwrap();
                let count = prop.subs(Tier::Quick).iter().find(|s| s.name == "boundary").map(|s| if let run::SubKind::Enum { count } = s.kind { count } else { 0 }).unwrap_or(0);
                for i in 0..count {
                    if let Some(c) = prop.gen_enum("boundary", i, Tier::Quick) {
                        extra.push(format!("numberfrom\tnumi:0\t{}", serde_json::to_string(&c.input).unwrap()));
                    }
                }
            }
            for l in lines.iter().chain(extra.iter()) {
                println!("{}", l);
            }
        }
        "fuzzseeds" => {
            // encode a list of expressions into t_strings seed files (reverse mapping through the byte alphabet)
            let dir = args.get(2).cloned().unwrap_or_else(|| ".".into());
            let base = scverif::gen::raw_alphabet();
            let alpha: Vec<String> = (0..256).map(|i| base[i % base.len()].clone()).collect();
            let exprs = ["1+2*3", "(2+3)/2", "2^3!", "-2^2", "6/2(3)", "2(3)^2(4)", "min(1,2,3)", "avg()", "5!", "sqrt(16)", "abs(-3)+pow(2,10)", "1<<2+1", "6&3|1", "2²+3³", "⌊2.5⌋+⌈2.5⌉", "pi*e", "90°", "1rad", "(1+2i)*(3-i)", "w(1)", "ilog(100,10)", "@+1", "1)", "2pi", "med(1,2,3,4)", "gcd(12,18)", "lambert_w(0.5)", "atan2(1,2)", "root(2,9)", "log(8,2)", "1.5e", "0.1+0.2", "9223372036854775807+1", "1/0", "0/0", "artanh(0.5)", "signum(-2)", "truncate(2.5)", "3!(2)^2!", "max(@,@)-@"];
            for (n, e) in exprs.iter().enumerate() {
                let cs: Vec<char> = e.chars().collect();
                let mut bytes: Vec<u8> = vec![(n * 7) as u8];
                let mut i = 0;
                while i < cs.len() {
                    // longest alphabet entry matching at i
                    let mut best: Option<(usize, usize)> = None;
                    for (bi, a) in alpha.iter().enumerate() {
                        let ac: Vec<char> = a.chars().collect();
                        if !ac.is_empty() && i + ac.len() <= cs.len() && cs[i..i + ac.len()] == ac[..] && best.map(|b| ac.len() > b.1).unwrap_or(true) {
                            best = Some((bi, ac.len()));
                        }
                    }
                    match best {
                        Some((bi, l)) => {
                            bytes.push(bi as u8);
                            i += l;
                        }
                        None => i += 1,
                    }
                }
                std::fs::write(format!("{}/seed{:02}", dir, n), &bytes).unwrap();
            }
        }
        "stackprobe" => {
            // one call on a thread with the given stack size (C01 stack stage; a stack overflow aborts this process)
            let stack: usize = args[2].parse().expect("stack bytes");
            let ev = api::Ev::from_name(&args[3]).expect("evaluator");
            let ph = api::Val::dec(&args[4]).expect("placeholder");
            let input = args[5].clone();
            let h = std::thread::Builder::new()
                .stack_size(stack)
                .spawn(move || {
                    let o = api::eval(ev, &input, &ph);
                    println!("{}", o.enc());
                })
                .expect("spawn");
            let _ = h.join();
        }
        "selftest" => {
            props::selftest();
        }
        _ => {
            eprintln!("unknown command");
            std::process::exit(2);
        }
    }
}
