//! Choice sequences: the single source of generated randomness, shared by proptest and libFuzzer.
//! `below(n)` maps the next element monotonically onto 0..n (so that shrinking an element towards 0
//! moves towards the generator's simplest alternative); an exhausted sequence answers 0.

pub trait Choices {
    fn below(&mut self, n: u32) -> u32;
    fn flip(&mut self, num: u32, den: u32) -> bool {
        // true with probability num/den; false (the simple alternative) at 0
        self.below(den) >= den - num
    }
}

pub struct Seq<'a> {
    buf: &'a [u16],
    pos: usize,
}

impl<'a> Seq<'a> {
    pub fn new(buf: &'a [u16]) -> Self {
        Seq { buf, pos: 0 }
    }
    pub fn used(&self) -> usize {
        self.pos
    }
}

impl<'a> Choices for Seq<'a> {
    fn below(&mut self, n: u32) -> u32 {
        if n <= 1 {
            return 0;
        }
        let x = self.buf.get(self.pos).copied().unwrap_or(0) as u32;
        self.pos += 1;
        (x * n) >> 16
    }
}

/// Byte-driven source for fuzz targets (two bytes per choice when n > 256).
pub struct ByteSeq<'a> {
    buf: &'a [u8],
    pos: usize,
}
impl<'a> ByteSeq<'a> {
    pub fn new(buf: &'a [u8]) -> Self {
        ByteSeq { buf, pos: 0 }
    }
}
impl<'a> Choices for ByteSeq<'a> {
    fn below(&mut self, n: u32) -> u32 {
        if n <= 1 {
            return 0;
        }
        let a = self.buf.get(self.pos).copied().unwrap_or(0) as u32;
        self.pos += 1;
        if n <= 256 {
            (a * n) >> 8
        } else {
            let b = self.buf.get(self.pos).copied().unwrap_or(0) as u32;
            self.pos += 1;
            (((a << 8) | b) * n) >> 16
        }
    }
}

/// Deterministic counter-based source (for exhaustive mixed-radix enumeration).
pub struct Fixed {
    pub vals: Vec<u32>,
    pub pos: usize,
}
impl Choices for Fixed {
    fn below(&mut self, n: u32) -> u32 {
        let v = self.vals.get(self.pos).copied().unwrap_or(0);
        self.pos += 1;
        if n == 0 {
            0
        } else {
            v.min(n - 1)
        }
    }
}
