//! Reference lexer — written from the property texts (C03, C10, C13, C19), independent of
//! src/eval_*/tokenizer.rs. Maximal munch over the evaluator's keyword table; a function name
//! is a token only together with the `(` that directly follows it.

use crate::api::Ev;
use crate::vocab;

#[derive(Clone, Debug, PartialEq)]
pub enum Tok {
    /// literal as written (`12`, `1.5`, `1.`, `.5`; complex: `2i`, `.5i`, `i`)
    Num(String),
    /// superscript digit run, as ASCII digits
    Sup(String),
    Plus,
    Minus,
    Star,
    Slash,
    Percent,
    Caret,
    Amp,
    Bar,
    Shl,
    Shr,
    Bang,
    Deg,
    Rad,
    LP,
    RP,
    LF,
    RF,
    LC,
    RC,
    Comma,
    Func(&'static str),
    Const(&'static str),
    Ans,
}

impl Tok {
    pub fn text(&self) -> String {
        match self {
            Tok::Num(s) => s.clone(),
            Tok::Sup(s) => vocab::ascii_to_sup(s),
            Tok::Plus => "+".into(),
            Tok::Minus => "-".into(),
            Tok::Star => "*".into(),
            Tok::Slash => "/".into(),
            Tok::Percent => "%".into(),
            Tok::Caret => "^".into(),
            Tok::Amp => "&".into(),
            Tok::Bar => "|".into(),
            Tok::Shl => "<<".into(),
            Tok::Shr => ">>".into(),
            Tok::Bang => "!".into(),
            Tok::Deg => "°".into(),
            Tok::Rad => "rad".into(),
            Tok::LP => "(".into(),
            Tok::RP => ")".into(),
            Tok::LF => "⌊".into(),
            Tok::RF => "⌋".into(),
            Tok::LC => "⌈".into(),
            Tok::RC => "⌉".into(),
            Tok::Comma => ",".into(),
            Tok::Func(n) => n.to_string(),
            Tok::Const(n) => n.to_string(),
            Tok::Ans => "@".into(),
        }
    }
}

pub fn strip_ws(s: &str) -> String {
    s.chars().filter(|c| !vocab::is_ws(*c)).collect()
}

fn starts_with(cs: &[char], i: usize, pat: &str) -> bool {
    let p: Vec<char> = pat.chars().collect();
    i + p.len() <= cs.len() && cs[i..i + p.len()] == p[..]
}

/// Lex the whole input (whitespace removed first). `Err(())` = lexical error (⇒ Reject).
pub fn lex(ev: Ev, input: &str) -> Result<Vec<Tok>, ()> {
    let cs: Vec<char> = strip_ws(input).chars().collect();
    let funcs = sorted_funcs(ev);
    let consts = vocab::consts(ev);
    let mut out = Vec::new();
    let mut i = 0;
    'outer: while i < cs.len() {
        let c = cs[i];
        // numbers
        if c.is_ascii_digit() || (c == '.' && vocab::has_point(ev)) {
            let mut j = i;
            let mut text = String::new();
            if c == '.' {
                // .DIGITS
                if j + 1 < cs.len() && cs[j + 1].is_ascii_digit() {
                    text.push('.');
                    j += 1;
                    while j < cs.len() && cs[j].is_ascii_digit() {
                        text.push(cs[j]);
                        j += 1;
                    }
                } else {
                    return Err(());
                }
            } else {
                while j < cs.len() && cs[j].is_ascii_digit() {
                    text.push(cs[j]);
                    j += 1;
                }
                if vocab::has_point(ev) && j < cs.len() && cs[j] == '.' {
                    text.push('.');
                    j += 1;
                    while j < cs.len() && cs[j].is_ascii_digit() {
                        text.push(cs[j]);
                        j += 1;
                    }
                }
            }
            if ev == Ev::Cpx && j < cs.len() && cs[j] == 'i' {
                text.push('i');
                j += 1;
            }
            out.push(Tok::Num(text));
            i = j;
            continue;
        }
        if let Some(d) = vocab::sup_to_ascii(c) {
            let mut text = String::new();
            text.push(d);
            let mut j = i + 1;
            while j < cs.len() {
                if let Some(d) = vocab::sup_to_ascii(cs[j]) {
                    text.push(d);
                    j += 1;
                } else {
                    break;
                }
            }
            out.push(Tok::Sup(text));
            i = j;
            continue;
        }
        // function names (with their opening bracket, which stays in the stream)
        if c.is_ascii_lowercase() {
            for f in funcs {
                if starts_with(&cs, i, f.name) && i + f.name.chars().count() < cs.len() && cs[i + f.name.chars().count()] == '(' {
                    out.push(Tok::Func(f.name));
                    i += f.name.chars().count();
                    continue 'outer;
                }
            }
        }
        // constants and word operators
        for k in consts {
            if starts_with(&cs, i, k) {
                out.push(Tok::Const(k));
                i += k.chars().count();
                continue 'outer;
            }
        }
        if vocab::has_deg(ev) && starts_with(&cs, i, "rad") {
            out.push(Tok::Rad);
            i += 3;
            continue;
        }
        if ev == Ev::Cpx && c == 'i' {
            out.push(Tok::Num("i".into()));
            i += 1;
            continue;
        }
        let t = match c {
            '@' => Tok::Ans,
            '+' => Tok::Plus,
            '-' => Tok::Minus,
            '*' => Tok::Star,
            '/' => Tok::Slash,
            '^' => Tok::Caret,
            '(' => Tok::LP,
            ')' => Tok::RP,
            ',' => Tok::Comma,
            '%' if ev != Ev::Cpx => Tok::Percent,
            '!' if vocab::has_fact(ev) => Tok::Bang,
            '°' if vocab::has_deg(ev) => Tok::Deg,
            '⌊' if vocab::has_floor_brackets(ev) => Tok::LF,
            '⌋' if vocab::has_floor_brackets(ev) => Tok::RF,
            '⌈' if vocab::has_floor_brackets(ev) => Tok::LC,
            '⌉' if vocab::has_floor_brackets(ev) => Tok::RC,
            '&' if ev == Ev::I64 => Tok::Amp,
            '|' if ev == Ev::I64 => Tok::Bar,
            '<' if ev == Ev::I64 && i + 1 < cs.len() && cs[i + 1] == '<' => {
                i += 1;
                Tok::Shl
            }
            '>' if ev == Ev::I64 && i + 1 < cs.len() && cs[i + 1] == '>' => {
                i += 1;
                Tok::Shr
            }
            _ => return Err(()),
        };
        out.push(t);
        i += 1;
    }
    Ok(out)
}

/// function table, longest name first (cached)
fn sorted_funcs(ev: Ev) -> &'static Vec<vocab::Func> {
    use std::sync::OnceLock;
    static CELLS: [OnceLock<Vec<vocab::Func>>; 5] = [OnceLock::new(), OnceLock::new(), OnceLock::new(), OnceLock::new(), OnceLock::new()];
    CELLS[ev.idx()].get_or_init(|| {
        let mut funcs = vocab::funcs(ev);
        funcs.sort_by(|a, b| b.name.len().cmp(&a.name.len()));
        funcs
    })
}

pub fn render_tokens(ts: &[Tok]) -> String {
    ts.iter().map(|t| t.text()).collect()
}
