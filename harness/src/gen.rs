//! Generators. All constructive; every random choice comes from a `Choices` source; the simplest
//! alternative is always at index 0. The generated *string* is the test case: its meaning is always
//! re-derived by the reference front end, so a generator slip can only skew the distribution.

use crate::api::Ev;
use crate::choice::Choices;
use crate::grammar::{BinOp, Br, E};
use crate::lex::Tok;
use crate::vocab::{self, Arity, Func};

#[derive(Clone)]
pub struct Profile {
    pub ev: Ev,
    pub max_depth: u32,
    /// literal pool (texts of non-negative literals)
    pub lits: Vec<String>,
    /// negative-able: wrap some literals in (-x)
    pub neg_lits: bool,
    pub ans: bool,
    pub consts: bool,
    pub ops: Vec<BinOp>,
    pub funcs: Vec<Func>,
    pub fact: bool,
    pub deg: bool,
    pub sups: Vec<String>,
    pub prefix: bool,
    pub juxt: bool,
    pub floor_br: bool,
    pub extra_parens: bool,
    pub max_args: u32,
}

impl Profile {
    /// Everything the evaluator offers.
    pub fn full(ev: Ev) -> Profile {
        let lits: Vec<String> = match ev {
            Ev::I64 => ["0", "1", "2", "3", "5", "7", "10", "12", "63", "64", "100"].iter().map(|s| s.to_string()).collect(),
            Ev::Cpx => ["0", "1", "2", "3", "0.5", "1.5", "i", "2i", "0.5i", "7", ".25", "3."].iter().map(|s| s.to_string()).collect(),
            _ => ["0", "1", "2", "3", "5", "7", "0.5", "1.5", "2.5", "10", ".25", "3.", "12", "100"].iter().map(|s| s.to_string()).collect(),
        };
        Profile {
            ev,
            max_depth: 5,
            lits,
            neg_lits: true,
            ans: true,
            consts: true,
            ops: BinOp::for_ev(ev),
            funcs: vocab::funcs(ev),
            fact: vocab::has_fact(ev),
            deg: vocab::has_deg(ev),
            sups: ["2", "3", "0", "1", "10"].iter().map(|s| s.to_string()).collect(),
            prefix: true,
            juxt: true,
            floor_br: vocab::has_floor_brackets(ev),
            extra_parens: true,
            max_args: 4,
        }
    }
    pub fn with_funcs(mut self, names: &[&str]) -> Profile {
        self.funcs.retain(|f| names.contains(&f.name));
        self
    }
    pub fn without_funcs(mut self, canon: &[&str]) -> Profile {
        self.funcs.retain(|f| !canon.contains(&f.canon));
        self
    }
}

pub fn pick<'a, T>(c: &mut dyn Choices, v: &'a [T]) -> &'a T {
    &v[c.below(v.len() as u32) as usize]
}

fn group(e: E) -> E {
    E::Group(Br::Round, Box::new(e))
}

pub fn lvl(e: &E) -> u8 {
    match e {
        E::Bin(op, _, _) => op.level(),
        E::Deg(_) | E::Rad(_) => 4,
        E::Sup(_, _) => 5,
        E::Neg(_) | E::Pos(_) => 6,
        E::Fact(_) => 7,
        _ => 8,
    }
}

/// The rendering ends in an implicit-product right factor that would absorb a following ^, superscript or !
pub fn right_open(e: &E) -> bool {
    match e {
        E::Juxt(_, _) => true,
        E::Neg(a) | E::Pos(a) => right_open(a),
        E::Bin(_, _, b) => right_open(b),
        _ => false,
    }
}

fn need(e: E, min_lvl: u8, closed: bool) -> E {
    if lvl(&e) < min_lvl || (closed && right_open(&e)) {
        group(e)
    } else {
        e
    }
}

/// Smart constructors inserting the round brackets a faithful rendering needs.
pub fn mk_bin(op: BinOp, a: E, b: E) -> E {
    let l = op.level();
    let (a, b) = if op == BinOp::Pow { (need(a, 5, true), need(b, 6, false)) } else { (need(a, l, false), need(b, l + 1, false)) };
    E::Bin(op, Box::new(a), Box::new(b))
}
pub fn mk_neg(a: E) -> E {
    E::Neg(Box::new(need(a, 6, false)))
}
pub fn mk_pos(a: E) -> E {
    E::Pos(Box::new(need(a, 6, false)))
}
pub fn mk_fact(a: E) -> E {
    E::Fact(Box::new(need(a, 7, true)))
}
pub fn mk_sup(a: E, d: &str) -> E {
    // a base that itself ends in a superscript run would merge with it
    let a = if matches!(a, E::Sup(_, _)) { group(a) } else { a };
    E::Sup(Box::new(need(a, 5, true)), d.to_string())
}
pub fn mk_deg(a: E) -> E {
    E::Deg(Box::new(need(a, 4, false)))
}
pub fn mk_rad(a: E) -> E {
    E::Rad(Box::new(need(a, 4, false)))
}
pub fn mk_juxt(a: E, r: E) -> E {
    let a_ok = match &a {
        E::Lit(_) => true,
        E::Group(_, _) | E::Call(_, _) | E::Fact(_) => true,
        _ => false,
    };
    let a = if a_ok { a } else { group(a) };
    // the right factor must start with a bracket or a function name (or a literal after a non-literal)
    fn first_ok(e: &E, after_lit: bool) -> bool {
        match e {
            E::Group(_, _) | E::Call(_, _) => true,
            E::Lit(_) => !after_lit,
            E::Bin(BinOp::Pow, a, _) => first_ok(a, after_lit),
            E::Sup(a, _) | E::Fact(a) => first_ok(a, after_lit),
            E::Juxt(a, _) => first_ok(a, after_lit),
            _ => false,
        }
    }
    let after_lit = matches!(a, E::Lit(_));
    let r = if lvl(&r) >= 5 && first_ok(&r, after_lit) { r } else { group(r) };
    E::Juxt(Box::new(a), Box::new(r))
}

pub fn gen_leaf(p: &Profile, c: &mut dyn Choices) -> E {
    let k = c.below(10);
    if k >= 8 && p.ans {
        return E::Ans;
    }
    if k == 7 && p.consts && !vocab::consts(p.ev).is_empty() {
        return E::Const(*pick(c, vocab::consts(p.ev)));
    }
    let lit = E::Lit(pick(c, &p.lits).clone());
    if p.neg_lits && k == 6 {
        return group(E::Neg(Box::new(lit)));
    }
    lit
}

pub fn gen_expr(p: &Profile, c: &mut dyn Choices, depth: u32) -> E {
    if depth == 0 {
        return gen_leaf(p, c);
    }
    // production weights; index 0 = leaf
    let k = c.below(20);
    match k {
        0..=3 => gen_leaf(p, c),
        4..=9 => {
            if p.ops.is_empty() {
                return gen_leaf(p, c);
            }
            let op = *pick(c, &p.ops);
            let a = gen_expr(p, c, depth - 1);
            let b = gen_expr(p, c, depth - 1);
            mk_bin(op, a, b)
        }
        10..=12 => {
            if p.funcs.is_empty() {
                return gen_leaf(p, c);
            }
            let f = *pick(c, &p.funcs);
            let n = match f.arity {
                Arity::One => 1,
                Arity::Two => 2,
                Arity::Var1 => {
                    // mostly short lists; now and then a long one (sorting / selection paths differ by length)
                    if c.below(24) == 23 {
                        5 + c.below(36)
                    } else {
                        1 + c.below(p.max_args)
                    }
                }
                Arity::Var0 => {
                    // rarely empty
                    if c.below(16) == 15 {
                        0
                    } else {
                        1 + c.below(p.max_args)
                    }
                }
            };
            let args = (0..n).map(|_| gen_expr(p, c, depth - 1)).collect();
            E::Call(f.name, args)
        }
        13 => {
            if !p.prefix {
                return gen_leaf(p, c);
            }
            let a = gen_expr(p, c, depth - 1);
            if c.below(4) == 3 {
                mk_pos(a)
            } else {
                mk_neg(a)
            }
        }
        14 => {
            if !p.fact {
                return gen_leaf(p, c);
            }
            // keep factorial arguments small: a leaf or a small expression
            let a = if c.below(3) == 0 { gen_leaf(p, c) } else { gen_expr(p, c, depth.min(2) - 1) };
            mk_fact(a)
        }
        15 => {
            if p.sups.is_empty() {
                return gen_leaf(p, c);
            }
            let a = gen_expr(p, c, depth - 1);
            let d = pick(c, &p.sups).clone();
            mk_sup(a, &d)
        }
        16 => {
            let a = gen_expr(p, c, depth - 1);
            let br = if p.floor_br {
                match c.below(4) {
                    0 | 1 => Br::Round,
                    2 => Br::Floor,
                    _ => Br::Ceil,
                }
            } else {
                Br::Round
            };
            if br == Br::Round && !p.extra_parens {
                return a;
            }
            E::Group(br, Box::new(a))
        }
        17 | 18 => {
            if !p.juxt {
                return gen_leaf(p, c);
            }
            gen_juxt(p, c, depth)
        }
        _ => {
            if !p.deg {
                return gen_leaf(p, c);
            }
            let a = gen_expr(p, c, depth - 1);
            if c.below(2) == 0 {
                mk_deg(a)
            } else {
                mk_rad(a)
            }
        }
    }
}

/// A juxtaposition node A R with every kind of A and R head the property names.
pub fn gen_juxt(p: &Profile, c: &mut dyn Choices, depth: u32) -> E {
    let d = depth.saturating_sub(1);
    let a = match c.below(5) {
        0 => {
            // a plain number literal (no imaginary unit: literal-like `i` adjacency is don't-care territory)
            let lits: Vec<&String> = p.lits.iter().filter(|s| !s.contains('i')).collect();
            if lits.is_empty() {
                group(gen_expr(p, c, d))
            } else {
                E::Lit((*pick(c, &lits)).clone())
            }
        }
        1 => group(gen_expr(p, c, d)),
        2 if p.floor_br => E::Group(if c.below(2) == 0 { Br::Floor } else { Br::Ceil }, Box::new(gen_expr(p, c, d))),
        3 if !p.funcs.is_empty() => gen_call(p, c, d),
        4 if p.fact => mk_fact(gen_leaf(p, c)),
        _ => group(gen_expr(p, c, d)),
    };
    let head = match c.below(5) {
        0 | 1 => group(gen_expr(p, c, d)),
        2 if p.floor_br => E::Group(if c.below(2) == 0 { Br::Floor } else { Br::Ceil }, Box::new(gen_expr(p, c, d))),
        3 if !p.funcs.is_empty() => gen_call(p, c, d),
        4 if !matches!(a, E::Lit(_)) => {
            let lits: Vec<&String> = p.lits.iter().filter(|s| !s.contains('i')).collect();
            if lits.is_empty() {
                group(gen_expr(p, c, d))
            } else {
                E::Lit((*pick(c, &lits)).clone())
            }
        }
        _ => group(gen_expr(p, c, d)),
    };
    // suffixes that belong to R: ^x, superscript, !
    let r = match c.below(6) {
        0 | 1 | 2 => head,
        3 if p.ops.contains(&BinOp::Pow) => mk_bin(BinOp::Pow, head, gen_leaf(p, c)),
        4 if !p.sups.is_empty() => mk_sup(head, &pick(c, &p.sups).clone()),
        5 if p.fact => mk_fact(head),
        _ => head,
    };
    mk_juxt(a, r)
}

fn gen_call(p: &Profile, c: &mut dyn Choices, d: u32) -> E {
    let f = *pick(c, &p.funcs);
    let n = match f.arity {
        Arity::One => 1,
        Arity::Two => 2,
        _ => 1 + c.below(3),
    };
    E::Call(f.name, (0..n).map(|_| gen_expr(p, c, d)).collect())
}

// ---------------------------------------------------------------------------------------------
// token-level near-miss mutation

/// Complete token vocabulary of an evaluator (one token per spelling) plus a literal pool.
pub fn vocab_tokens(ev: Ev) -> Vec<Tok> {
    let mut v = vec![Tok::Plus, Tok::Minus, Tok::Star, Tok::Slash, Tok::Caret, Tok::LP, Tok::RP, Tok::Comma, Tok::Ans];
    if ev != Ev::Cpx {
        v.push(Tok::Percent);
    }
    if vocab::has_fact(ev) {
        v.push(Tok::Bang);
    }
    if vocab::has_deg(ev) {
        v.push(Tok::Deg);
        v.push(Tok::Rad);
    }
    if vocab::has_floor_brackets(ev) {
        v.extend([Tok::LF, Tok::RF, Tok::LC, Tok::RC]);
    }
    if ev == Ev::I64 {
        v.extend([Tok::Amp, Tok::Bar, Tok::Shl, Tok::Shr]);
    }
    for c in vocab::consts(ev) {
        v.push(Tok::Const(c));
    }
    for f in vocab::funcs(ev) {
        v.push(Tok::Func(f.name));
    }
    for s in ["2", "²", "³"] {
        if s.chars().next().unwrap().is_ascii_digit() {
            v.push(Tok::Num(s.to_string()));
        } else {
            v.push(Tok::Sup(vocab::sup_to_ascii(s.chars().next().unwrap()).unwrap().to_string()));
        }
    }
    v
}

/// Raw text fragments that are *not* in the evaluator's vocabulary (other evaluators' private tokens
/// and a few symbols nobody offers).
pub fn foreign_fragments(ev: Ev) -> Vec<String> {
    let mut v: Vec<String> = Vec::new();
    let mine: Vec<&str> = vocab::funcs(ev).iter().map(|f| f.name).collect();
    for n in vocab::all_func_names() {
        if !mine.contains(&n) {
            v.push(format!("{}(", n));
        }
    }
    for s in ["<", ">", "=", "x", "_", "#", "$", "é", "½", "∞", "\u{1F600}", "\\", "\"", "'", "[", "]", "{", "}", "~", "?", ";", ":"] {
        v.push(s.to_string());
    }
    if ev != Ev::I64 {
        v.extend(["&", "|", "<<", ">>"].iter().map(|s| s.to_string()));
    } else {
        v.extend(["pi", "π", "e", ".", "1.5", ".5"].iter().map(|s| s.to_string()));
    }
    if !vocab::has_fact(ev) {
        v.push("!".into());
        v.push("%".into());
    }
    if !vocab::has_deg(ev) {
        v.push("°".into());
        v.push("rad".into());
    }
    if !vocab::has_floor_brackets(ev) {
        v.extend(["⌊", "⌋", "⌈", "⌉"].iter().map(|s| s.to_string()));
    }
    if ev != Ev::Cpx {
        v.push("i".into());
    }
    v
}

/// Pieces of text for mutation: a token's text or a foreign fragment.
fn random_piece(ev: Ev, c: &mut dyn Choices) -> String {
    if c.below(4) == 3 {
        let f = foreign_fragments(ev);
        pick(c, &f).clone()
    } else {
        let v = vocab_tokens(ev);
        let t = pick(c, &v);
        match t {
            Tok::Func(n) => format!("{}(", n),
            _ => t.text(),
        }
    }
}

/// Split a (whitespace-free) string into lexical pieces for mutation. Falls back to chars.
pub fn pieces(ev: Ev, s: &str) -> Vec<String> {
    match crate::lex::lex(ev, s) {
        Ok(ts) => ts.iter().map(|t| t.text()).collect(),
        Err(()) => s.chars().map(|c| c.to_string()).collect(),
    }
}

/// One near-miss mutation of a token string; returns the mutated string and the mutation kind.
pub fn mutate(ev: Ev, s: &str, c: &mut dyn Choices) -> (String, &'static str) {
    let mut ps = pieces(ev, s);
    if ps.is_empty() {
        return (random_piece(ev, c), "insert");
    }
    let n = ps.len() as u32;
    let kind = c.below(9);
    let name = match kind {
        0 => {
            let i = c.below(n) as usize;
            ps.remove(i);
            "delete"
        }
        1 => {
            let i = c.below(n + 1) as usize;
            ps.insert(i, random_piece(ev, c));
            "insert"
        }
        2 => {
            let i = c.below(n) as usize;
            let p = ps[i].clone();
            ps.insert(i, p);
            "duplicate"
        }
        3 => {
            if n >= 2 {
                let i = c.below(n - 1) as usize;
                ps.swap(i, i + 1);
            }
            "swap"
        }
        4 => {
            let i = c.below(n) as usize;
            ps[i] = random_piece(ev, c);
            "replace"
        }
        5 => {
            // drop or mismatch a bracket
            let idx: Vec<usize> = ps.iter().enumerate().filter(|(_, p)| ["(", ")", "⌊", "⌋", "⌈", "⌉"].contains(&p.as_str())).map(|x| x.0).collect();
            if idx.is_empty() {
                ps.push(")".into());
            } else {
                let i = *pick(c, &idx);
                if c.below(2) == 0 {
                    ps.remove(i);
                } else {
                    let alts = ["(", ")", "⌊", "⌋", "⌈", "⌉"];
                    ps[i] = pick(c, &alts).to_string();
                }
            }
            "bracket"
        }
        6 => {
            let k = 1 + c.below(n) as usize;
            ps.truncate(k.min(ps.len()));
            "truncate"
        }
        7 => {
            // append a trailing token
            ps.push(random_piece(ev, c));
            "trailing"
        }
        _ => {
            // change an argument count: delete a comma-separated argument or add one
            let idx: Vec<usize> = ps.iter().enumerate().filter(|(_, p)| p.as_str() == ",").map(|x| x.0).collect();
            if idx.is_empty() || c.below(2) == 0 {
                let close: Vec<usize> = ps.iter().enumerate().filter(|(_, p)| p.as_str() == ")").map(|x| x.0).collect();
                if close.is_empty() {
                    ps.push(",".into());
                } else {
                    let i = *pick(c, &close);
                    ps.insert(i, ",1".into());
                }
            } else {
                let i = *pick(c, &idx);
                ps.remove(i);
            }
            "arity"
        }
    };
    (ps.concat(), name)
}

// ---------------------------------------------------------------------------------------------
// raw strings

/// Weighted alphabet of raw characters / fragments for unstructured strings.
pub fn raw_alphabet() -> Vec<String> {
    let mut v: Vec<String> = Vec::new();
    for s in [
        "0", "1", "2", "9", ".", "(", ")", ",", "@", "!", "^", "%", "*", "/", "+", "-", "<", ">", "&", "|", "°", "π", "⌊", "⌋", "⌈", "⌉", "²", "⁹", "⁰", "i", "e",
    ] {
        v.push(s.to_string());
        v.push(s.to_string());
    }
    for n in vocab::all_func_names() {
        v.push(n.to_string());
        v.push(format!("{}(", n));
    }
    for s in ["pi", "rad", "a", "b", "c", "d", "g", "l", "m", "n", "o", "p", "r", "s", "t", "u", "w", "x", "_"] {
        v.push(s.to_string());
    }
    for w in vocab::WHITE_SPACE {
        v.push(w.to_string());
    }
    for s in ["\u{0}", "\u{7f}", "é", "\u{0301}", "\u{200B}", "\u{FEFF}", "\u{1F600}", "\u{10FFFF}", "¹", "½", "٣", "１", "∞", "−", "×", "÷", "√"] {
        v.push(s.to_string());
    }
    v
}

pub fn gen_raw(c: &mut dyn Choices, max_chars: usize) -> String {
    let alpha = raw_alphabet();
    let n = c.below(40) as usize;
    let mut s = String::new();
    for _ in 0..n {
        if c.below(32) == 31 {
            // arbitrary scalar value
            let hi = c.below(0x11) as u32;
            let lo = c.below(0x10000) as u32;
            if let Some(ch) = char::from_u32((hi << 16) | lo) {
                s.push(ch);
            }
        } else {
            s.push_str(pick(c, &alpha[..]).as_str());
        }
        if s.chars().count() >= max_chars {
            break;
        }
    }
    s.chars().take(max_chars).collect()
}

/// Insert whitespace characters at random char boundaries.
pub fn sprinkle_ws(s: &str, c: &mut dyn Choices, max_inserts: u32) -> String {
    let cs: Vec<char> = s.chars().collect();
    let k = 1 + c.below(max_inserts);
    let mut out: Vec<char> = cs.clone();
    for _ in 0..k {
        let pos = c.below(out.len() as u32 + 1) as usize;
        let w = *pick(c, &vocab::WHITE_SPACE);
        out.insert(pos, w);
    }
    out.into_iter().collect()
}
