//! Reference evaluators, written from the property texts (not from ast.rs).
