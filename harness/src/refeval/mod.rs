//! Reference evaluators, written from the property texts (not from ast.rs).
pub mod cpxr;
pub mod decr;
pub mod f64r;
pub mod i64r;
pub mod numr;

use crate::api::{Ev, Outcome, Val};
use crate::grammar::E;

/// Agreement of an observed outcome with the reference evaluation of `e`, for the *exactly specified*
/// part of each evaluator's language.  None = the reference makes no exact claim for this tree.
pub fn exact_agrees(ev: Ev, e: &E, ph: &Val, got: &Outcome) -> Option<(bool, String)> {
    match (ev, ph) {
        (Ev::F64, Val::F(p)) => match f64r::eval(e, *p) {
            f64r::RF::Exact(w) => Some((matches!(got, Outcome::Ok(Val::F(g)) if Val::F(*g).same(&Val::F(w))), format!("Ok({:?})", w))),
            f64r::RF::Err => Some((got.is_err(), "Err".into())),
            _ => None,
        },
        (Ev::I64, Val::I(p)) => {
            let r = i64r::eval(e, *p);
            i64r::agrees(r, got).map(|b| (b, format!("{:?}", r)))
        }
        (Ev::Num, p) => {
            let r = numr::eval(e, numr::val_to_n(p)?);
            numr::agrees(r, got).map(|b| (b, format!("{:?}", r)))
        }
        (Ev::Dec, Val::D(p)) => {
            let r = decr::eval(e, p);
            let shown = match &r {
                decr::RD::Val(v) => format!("Ok({})", v.show()),
                decr::RD::Quot(a, b) => format!("~{}/{}", a.show(), b.show()),
                decr::RD::Err => "Err".into(),
                decr::RD::Unspec(w) => format!("Unspec({})", w),
            };
            decr::agrees(&r, got).map(|b| (b, shown))
        }
        (Ev::Cpx, Val::C(a, b)) => match cpxr::eval(e, (*a, *b)) {
            cpxr::RC::Exact(w) => Some((matches!(got, Outcome::Ok(Val::C(x, y)) if Val::C(*x, *y).same(&Val::C(w.0, w.1))), format!("Ok({:?}+{:?}i)", w.0, w.1))),
            _ => None,
        },
        _ => None,
    }
}
