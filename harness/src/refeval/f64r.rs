//! Reference evaluator for eval_f64 — written from C05 / C10 / C11, node by node on the reference tree.
//! `Exact` results are claimed bit for bit (C05's list); `Approx` results only within 1e-9 relative
//! (C10); `Unspec` where no property fixes the value.

use crate::grammar::{BinOp, Br, E};
use crate::vocab;

#[derive(Clone, Copy, Debug, PartialEq)]
pub enum RF {
    Exact(f64),
    Approx(f64),
    /// the documented evaluation error (Lambert W below -1/e)
    Err,
    Unspec(&'static str),
}

impl RF {
    pub fn value(self) -> Option<f64> {
        match self {
            RF::Exact(v) | RF::Approx(v) => Some(v),
            _ => None,
        }
    }
}

extern "C" {
    fn tgamma(x: f64) -> f64;
}

pub fn gamma(x: f64) -> f64 {
    unsafe { tgamma(x) }
}

/// Solve w e^w = x for the principal branch (own implementation: bisection on the monotone branch
/// followed by Newton polishing in log form for large x).
pub fn lambert_w0(x: f64) -> f64 {
    if x.is_nan() {
        return x;
    }
    if x == f64::INFINITY {
        return x;
    }
    if x == 0.0 {
        return 0.0;
    }
    // g(w) = w e^w - x is increasing on [-1, inf)
    let (mut lo, mut hi) = if x < 0.0 { (-1.0, 0.0) } else { (0.0, if x < 1.0 { 1.0 } else { x.ln() + 1.0 }) };
    for _ in 0..200 {
        let mid = 0.5 * (lo + hi);
        if mid == lo || mid == hi {
            break;
        }
        // compare in log space when large to avoid overflow
        let above = if x > 1e300 { mid + mid.ln() > x.ln() } else { mid * mid.exp() > x };
        if above {
            hi = mid;
        } else {
            lo = mid;
        }
    }
    0.5 * (lo + hi)
}

thread_local! {
    /// strict mode: an approximate operand makes the result unspecified (approximate values are only
    /// trustworthy one level deep: cos(100!) is garbage). Lenient mode propagates them (C15 restriction checks).
    static STRICT: std::cell::Cell<bool> = std::cell::Cell::new(true);
}

fn strict() -> bool {
    STRICT.with(|s| s.get())
}

/// Lenient evaluation: approximate values flow through further operations (used only to decide restrictions).
pub fn eval_lenient(e: &E, ph: f64) -> RF {
    STRICT.with(|s| s.set(false));
    let r = eval(e, ph);
    STRICT.with(|s| s.set(true));
    r
}

fn combine(a: RF, b: RF, f: impl Fn(f64, f64) -> f64) -> RF {
    match (a, b) {
        (RF::Err, _) | (_, RF::Err) => RF::Err,
        (RF::Unspec(w), _) | (_, RF::Unspec(w)) => RF::Unspec(w),
        (RF::Exact(x), RF::Exact(y)) => RF::Exact(f(x, y)),
        _ if strict() => RF::Unspec("approximate operand"),
        (x, y) => RF::Approx(f(x.value().unwrap(), y.value().unwrap())),
    }
}

fn map1(a: RF, exact: bool, f: impl Fn(f64) -> f64) -> RF {
    match a {
        RF::Err => RF::Err,
        RF::Unspec(w) => RF::Unspec(w),
        RF::Exact(x) if exact => RF::Exact(f(x)),
        RF::Approx(_) if strict() => RF::Unspec("approximate operand"),
        x => RF::Approx(f(x.value().unwrap())),
    }
}

pub fn factorial(x: f64) -> RF {
    if x.is_nan() {
        return RF::Unspec("factorial of NaN");
    }
    if x >= 0.0 && x.fract() == 0.0 {
        if x <= 22.0 {
            let mut r = 1.0;
            let mut i = 2.0;
            while i <= x {
                r *= i;
                i += 1.0;
            }
            RF::Exact(r)
        } else if x >= 171.0 {
            RF::Exact(f64::INFINITY)
        } else {
            RF::Approx(gamma(x + 1.0))
        }
    } else if x < 0.0 && x.fract() == 0.0 {
        RF::Unspec("factorial of a negative integer")
    } else if x.abs() <= 150.0 {
        RF::Approx(gamma(x + 1.0))
    } else {
        RF::Unspec("non-integer factorial beyond |x| <= 150")
    }
}

pub fn eval(e: &E, ph: f64) -> RF {
    match e {
        E::Lit(s) => match s.parse::<f64>() {
            Ok(v) => RF::Exact(v),
            Err(_) => RF::Unspec("literal"),
        },
        E::Const(c) => RF::Exact(if *c == "e" { std::f64::consts::E } else { std::f64::consts::PI }),
        E::Ans => RF::Exact(ph),
        E::Neg(a) => map1(eval(a, ph), true, |x| -x),
        E::Pos(a) => eval(a, ph),
        E::Group(Br::Round, a) => eval(a, ph),
        E::Group(Br::Floor, a) => map1(eval(a, ph), true, f64::floor),
        E::Group(Br::Ceil, a) => map1(eval(a, ph), true, f64::ceil),
        E::Bin(op, a, b) => {
            let (x, y) = (eval(a, ph), eval(b, ph));
            match op {
                BinOp::Add => combine(x, y, |p, q| p + q),
                BinOp::Sub => combine(x, y, |p, q| p - q),
                BinOp::Mul => combine(x, y, |p, q| p * q),
                BinOp::Div => combine(x, y, |p, q| p / q),
                BinOp::Mod => combine(x, y, |p, q| p % q),
                BinOp::Pow => combine(x, y, f64::powf),
                _ => RF::Unspec("operator not in eval_f64"),
            }
        }
        E::Juxt(a, b) => combine(eval(a, ph), eval(b, ph), |p, q| p * q),
        E::Sup(a, d) => match d.parse::<f64>() {
            Ok(n) => combine(eval(a, ph), RF::Exact(n), f64::powf),
            Err(_) => RF::Unspec("superscript"),
        },
        E::Fact(a) => match eval(a, ph) {
            RF::Err => RF::Err,
            RF::Unspec(w) => RF::Unspec(w),
            RF::Exact(x) => factorial(x),
            RF::Approx(_) if strict() => RF::Unspec("approximate operand"),
            RF::Approx(x) => match factorial(x) {
                RF::Exact(v) => RF::Approx(v),
                o => o,
            },
        },
        E::Deg(a) => map1(eval(a, ph), false, |x| x * std::f64::consts::PI / 180.0),
        E::Rad(a) => map1(eval(a, ph), false, |x| x * 180.0 / std::f64::consts::PI),
        E::Call(name, args) => {
            let canon = vocab::all_canon(name);
            let vs: Vec<RF> = args.iter().map(|a| eval(a, ph)).collect();
            if vs.iter().any(|v| *v == RF::Err) {
                return RF::Err;
            }
            if let Some(RF::Unspec(w)) = vs.iter().find(|v| matches!(v, RF::Unspec(_))) {
                return RF::Unspec(w);
            }
            if strict() && vs.iter().any(|v| matches!(v, RF::Approx(_))) {
                return RF::Unspec("approximate operand");
            }
            let one = |exact: bool, f: fn(f64) -> f64| map1(vs[0], exact, f);
            match canon {
                "abs" => one(true, f64::abs),
                "floor" => one(true, f64::floor),
                "ceil" => one(true, f64::ceil),
                "trunc" => one(true, f64::trunc),
                "round" => one(true, f64::round),
                "sqrt" => one(true, f64::sqrt),
                "sgn" => match vs[0] {
                    // sgn(0) = 0: the sign of that zero is not specified
                    RF::Exact(x) if x == 0.0 => RF::Approx(0.0),
                    _ => one(true, |x| if x.is_nan() { x } else if x > 0.0 { 1.0 } else if x < 0.0 { -1.0 } else { 0.0 }),
                },
                "exp" => one(false, f64::exp),
                "exp2" => one(false, f64::exp2),
                "ln" => one(false, f64::ln),
                "lb" => one(false, f64::log2),
                "sin" => one(false, f64::sin),
                "cos" => one(false, f64::cos),
                "tan" => one(false, f64::tan),
                "sinh" => one(false, f64::sinh),
                "cosh" => one(false, f64::cosh),
                "tanh" => one(false, f64::tanh),
                "asin" => one(false, f64::asin),
                "acos" => one(false, f64::acos),
                "atan" => one(false, f64::atan),
                "asinh" => one(false, f64::asinh),
                "acosh" => one(false, f64::acosh),
                "atanh" => one(false, f64::atanh),
                "w" => {
                    let x = vs[0].value().unwrap();
                    if x < -(-1.0f64).exp() {
                        RF::Err
                    } else {
                        RF::Approx(lambert_w0(x))
                    }
                }
                "pow" => combine(vs[0], vs[1], f64::powf),
                "mod" => combine(vs[0], vs[1], |p, q| p % q),
                "root" => match combine(vs[0], vs[1], |n, x| x.powf(1.0 / n)) {
                    RF::Exact(v) => RF::Approx(v),
                    o => o,
                },
                "log" => match combine(vs[0], vs[1], |x, b| x.ln() / b.ln()) {
                    RF::Exact(v) => RF::Approx(v),
                    o => o,
                },
                "atan2" => match combine(vs[0], vs[1], f64::atan2) {
                    RF::Exact(v) => RF::Approx(v),
                    o => o,
                },
                "ilog" => RF::Unspec("ilog is not specified by any property"),
                "min" | "max" => {
                    let xs: Vec<f64> = vs.iter().map(|v| v.value().unwrap()).collect();
                    if xs.iter().any(|x| x.is_nan()) {
                        return RF::Unspec("NaN in an aggregate");
                    }
                    let r = if canon == "min" { xs.iter().cloned().fold(f64::INFINITY, f64::min) } else { xs.iter().cloned().fold(f64::NEG_INFINITY, f64::max) };
                    if vs.iter().all(|v| matches!(v, RF::Exact(_))) {
                        // the sign of a zero extremum is not specified
                        if r == 0.0 {
                            RF::Approx(r)
                        } else {
                            RF::Exact(r)
                        }
                    } else {
                        RF::Approx(r)
                    }
                }
                "avg" | "med" => {
                    let mut xs: Vec<f64> = vs.iter().map(|v| v.value().unwrap()).collect();
                    if xs.is_empty() {
                        return RF::Exact(0.0);
                    }
                    if xs.iter().any(|x| !x.is_finite()) {
                        return RF::Unspec("non-finite value in an aggregate");
                    }
                    if canon == "avg" {
                        RF::Approx(xs.iter().sum::<f64>() / xs.len() as f64)
                    } else {
                        xs.sort_by(|a, b| a.partial_cmp(b).unwrap());
                        let n = xs.len();
                        if n % 2 == 1 {
                            RF::Approx(xs[n / 2])
                        } else {
                            RF::Approx((xs[n / 2 - 1] + xs[n / 2]) / 2.0)
                        }
                    }
                }
                _ => RF::Unspec("function not in eval_f64"),
            }
        }
    }
}

/// Relative closeness as the properties state it (1e-9 relative; NaN matches NaN; infinities must agree).
pub fn close(got: f64, want: f64, rel: f64) -> bool {
    if want.is_nan() {
        return got.is_nan();
    }
    if want.is_infinite() || got.is_infinite() {
        return got == want;
    }
    (got - want).abs() <= rel * want.abs().max(f64::MIN_POSITIVE)
}
