//! Typed reference evaluator for eval_number — C09 literally. Integer steps in i128, Float steps in f64.

use crate::api::{Outcome, Val};
use crate::grammar::{BinOp, Br, E};
use crate::vocab;

#[derive(Clone, Copy, Debug, PartialEq)]
pub enum N {
    I(i64),
    F(f64),
}

impl N {
    pub fn f(self) -> f64 {
        match self {
            N::I(i) => i as f64,
            N::F(f) => f,
        }
    }
}

#[derive(Clone, Copy, Debug, PartialEq)]
pub enum RN {
    /// variant and value are fixed by C09
    Exact(N),
    /// only the numeric value is fixed (the implementation may re-canonicalise 8.0 to Integer(8))
    Numeric(f64),
    /// numeric value within 1e-9 relative (C10 functions)
    Approx(f64),
    Err,
    Unspec(&'static str),
}

impl RN {
    /// The possible readings of this result as an operand of the next node. A numeric-only result
    /// that is integral and in the i64 range may be either an Integer or a Float.
    fn operands(self) -> Result<Vec<N>, RN> {
        match self {
            RN::Exact(n) => Ok(vec![n]),
            RN::Numeric(v) => {
                if v.is_finite() && v.fract() == 0.0 && v >= -9223372036854775808.0 && v < 9223372036854775808.0 {
                    Ok(vec![N::I(v as i64), N::F(v)])
                } else {
                    Ok(vec![N::F(v)])
                }
            }
            RN::Approx(_) => Err(RN::Unspec("approximate operand")),
            o => Err(o),
        }
    }
    fn numeric(self) -> Option<f64> {
        match self {
            RN::Exact(n) => Some(n.f()),
            RN::Numeric(v) => Some(v),
            _ => None,
        }
    }
}

/// exact comparison of two specified results: integers are compared as integers (an Integer beyond
/// 2^53 is not equal to the double it rounds to), zeros must agree in sign unless both are Integers.
fn same_value(a: RN, b: RN) -> bool {
    fn key(r: RN) -> Option<(Option<i128>, f64)> {
        match r {
            RN::Exact(N::I(i)) => Some((Some(i as i128), i as f64)),
            RN::Exact(N::F(f)) | RN::Numeric(f) => {
                if f.is_finite() && f.fract() == 0.0 && f.abs() < 1e38 && !(f == 0.0 && f.is_sign_negative()) {
                    Some((Some(f as i128), f))
                } else {
                    Some((None, f))
                }
            }
            _ => None,
        }
    }
    match (key(a), key(b)) {
        (Some((Some(x), _)), Some((Some(y), _))) => x == y,
        (Some((None, x)), Some((None, y))) => (x.is_nan() && y.is_nan()) || x.to_bits() == y.to_bits(),
        _ => false,
    }
}

fn int_fit(v: i128) -> Option<i64> {
    if v >= i64::MIN as i128 && v <= i64::MAX as i128 {
        Some(v as i64)
    } else {
        None
    }
}

fn arith(op: BinOp, a: N, b: N) -> RN {
    match (a, b) {
        (N::I(x), N::I(y)) => {
            let (xi, yi) = (x as i128, y as i128);
            let (xf, yf) = (x as f64, y as f64);
            match op {
                BinOp::Add => int_fit(xi + yi).map(|v| RN::Exact(N::I(v))).unwrap_or(RN::Exact(N::F(xf + yf))),
                BinOp::Sub => int_fit(xi - yi).map(|v| RN::Exact(N::I(v))).unwrap_or(RN::Exact(N::F(xf - yf))),
                BinOp::Mul => int_fit(xi * yi).map(|v| RN::Exact(N::I(v))).unwrap_or(RN::Exact(N::F(xf * yf))),
                BinOp::Div => {
                    if y != 0 && xi % yi == 0 {
                        if let Some(q) = int_fit(xi / yi) {
                            return RN::Exact(N::I(q));
                        }
                    }
                    RN::Exact(N::F(xf / yf))
                }
                BinOp::Mod => {
                    if y != 0 {
                        RN::Exact(N::I((xi % yi) as i64))
                    } else {
                        RN::Exact(N::F(xf % yf))
                    }
                }
                BinOp::Pow => {
                    if !(0..=4294967295i64).contains(&y) {
                        return RN::Unspec("Integer exponent outside 0..4294967295");
                    }
                    match super::i64r::pow_exact(x, y as u64) {
                        Some(v) => RN::Exact(N::I(v)),
                        None => RN::Numeric(xf.powf(yf)),
                    }
                }
                _ => RN::Unspec("operator not in eval_number"),
            }
        }
        _ => {
            let (xf, yf) = (a.f(), b.f());
            RN::Numeric(match op {
                BinOp::Add => xf + yf,
                BinOp::Sub => xf - yf,
                BinOp::Mul => xf * yf,
                BinOp::Div => xf / yf,
                BinOp::Mod => xf % yf,
                BinOp::Pow => xf.powf(yf),
                _ => return RN::Unspec("operator not in eval_number"),
            })
        }
    }
}

fn bin(op: BinOp, a: RN, b: RN) -> RN {
    // an evaluation error anywhere wins (both operands are always evaluated)
    if a == RN::Err || b == RN::Err {
        return RN::Err;
    }
    let xs = match a.operands() {
        Ok(n) => n,
        Err(r) => return r,
    };
    let ys = match b.operands() {
        Ok(n) => n,
        Err(r) => return r,
    };
    let mut results = Vec::new();
    for x in &xs {
        for y in &ys {
            results.push(arith(op, *x, *y));
        }
    }
    if results.len() == 1 {
        return results[0];
    }
    // several readings: the result is specified only if they all agree numerically
    let first = match results[0].numeric() {
        Some(v) => v,
        None => return RN::Unspec("operand of unspecified variant"),
    };
    for r in &results {
        if !same_value(*r, results[0]) {
            return RN::Unspec("result depends on an unspecified variant");
        }
    }
    RN::Numeric(first)
}

fn rounding(a: RN, f: fn(f64) -> f64) -> RN {
    match a {
        RN::Exact(N::I(i)) => RN::Exact(N::I(i)),
        RN::Exact(N::F(x)) => RN::Numeric(f(x)),
        // rounding an integral value of unknown variant gives that value
        RN::Numeric(v) => RN::Numeric(f(v)),
        RN::Approx(_) => RN::Unspec("approximate operand"),
        o => o,
    }
}

pub fn eval(e: &E, ph: N) -> RN {
    match e {
        E::Lit(s) => {
            if s.contains('.') {
                match s.parse::<f64>() {
                    Ok(v) => RN::Exact(N::F(v)),
                    Err(_) => RN::Unspec("literal"),
                }
            } else {
                match s.parse::<i64>() {
                    Ok(v) => RN::Exact(N::I(v)),
                    Err(_) => RN::Unspec("literal"),
                }
            }
        }
        E::Const(c) => RN::Exact(N::F(if *c == "e" { std::f64::consts::E } else { std::f64::consts::PI })),
        E::Ans => RN::Exact(ph),
        E::Pos(a) => eval(a, ph),
        E::Group(Br::Round, a) => eval(a, ph),
        E::Group(Br::Floor, a) => rounding(eval(a, ph), f64::floor),
        E::Group(Br::Ceil, a) => rounding(eval(a, ph), f64::ceil),
        E::Neg(a) => match eval(a, ph) {
            RN::Exact(N::I(i)) => match i.checked_neg() {
                Some(v) => RN::Exact(N::I(v)),
                None => RN::Exact(N::F(-(i as f64))),
            },
            RN::Exact(N::F(x)) => RN::Numeric(-x),
            RN::Numeric(v) => RN::Numeric(-v),
            RN::Approx(v) => RN::Approx(-v),
            o => o,
        },
        E::Bin(op, a, b) => bin(*op, eval(a, ph), eval(b, ph)),
        E::Juxt(a, b) => bin(BinOp::Mul, eval(a, ph), eval(b, ph)),
        E::Sup(a, d) => match d.parse::<i64>() {
            Ok(n) => bin(BinOp::Pow, eval(a, ph), RN::Exact(N::I(n))),
            Err(_) => RN::Unspec("superscript"),
        },
        E::Fact(a) => match eval(a, ph) {
            RN::Exact(N::I(n)) if (0..=20).contains(&n) => RN::Exact(N::I((1..=n).product())),
            RN::Err => RN::Err,
            RN::Unspec(w) => RN::Unspec(w),
            _ => RN::Unspec("factorial outside Integer 0..20 (C10's business)"),
        },
        E::Deg(a) | E::Rad(a) => match eval(a, ph) {
            RN::Err => RN::Err,
            _ => RN::Unspec("degree conversion is approximate (C10's business)"),
        },
        E::Call(name, args) => {
            let canon = vocab::all_canon(name);
            let vs: Vec<RN> = args.iter().map(|a| eval(a, ph)).collect();
            if vs.iter().any(|v| *v == RN::Err) {
                return RN::Err;
            }
            if let Some(RN::Unspec(w)) = vs.iter().find(|v| matches!(v, RN::Unspec(_))) {
                return RN::Unspec(w);
            }
            match canon {
                "abs" => match vs[0] {
                    RN::Exact(N::I(i)) => match i.checked_abs() {
                        Some(v) => RN::Exact(N::I(v)),
                        None => RN::Exact(N::F((i as f64).abs())),
                    },
                    RN::Exact(N::F(x)) => RN::Numeric(x.abs()),
                    RN::Numeric(v) => RN::Numeric(v.abs()),
                    _ => RN::Unspec("approximate operand"),
                },
                "sgn" => match vs[0] {
                    RN::Exact(N::I(i)) => RN::Exact(N::I(i.signum())),
                    RN::Exact(N::F(x)) | RN::Numeric(x) => {
                        if x.is_nan() {
                            RN::Unspec("sgn(NaN)")
                        } else {
                            RN::Numeric(if x > 0.0 { 1.0 } else if x < 0.0 { -1.0 } else { 0.0 })
                        }
                    }
                    _ => RN::Unspec("approximate operand"),
                },
                "floor" => rounding(vs[0], f64::floor),
                "ceil" => rounding(vs[0], f64::ceil),
                "round" => rounding(vs[0], f64::round),
                "trunc" => rounding(vs[0], f64::trunc),
                "pow" => bin(BinOp::Pow, vs[0], vs[1]),
                "mod" => bin(BinOp::Mod, vs[0], vs[1]),
                "min" | "max" => {
                    let mut xs = Vec::new();
                    for v in &vs {
                        match v {
                            RN::Exact(n) => xs.push(n.f()),
                            RN::Numeric(x) => xs.push(*x),
                            _ => return RN::Unspec("approximate operand"),
                        }
                    }
                    if xs.iter().any(|x| x.is_nan()) {
                        return RN::Unspec("NaN in an aggregate");
                    }
                    // large Integers lose precision as doubles: ties between distinct integers are unspecified
                    if vs.iter().any(|v| matches!(v, RN::Exact(N::I(i)) if i.unsigned_abs() > (1u64 << 53))) {
                        return RN::Unspec("aggregate over Integers beyond 2^53");
                    }
                    let r = if canon == "min" { xs.iter().cloned().fold(f64::INFINITY, f64::min) } else { xs.iter().cloned().fold(f64::NEG_INFINITY, f64::max) };
                    // the minimum / maximum of zeros of both signs (0, 0.0, -0.0) is zero, of unspecified sign and variant:
                    // what is computed from it may depend on that sign (2/min(0,-0.0))
                    if r == 0.0 && xs.iter().any(|x| *x == 0.0 && x.is_sign_negative()) && (xs.iter().any(|x| *x == 0.0 && x.is_sign_positive())) {
                        return RN::Unspec("extremum of zeros of both signs");
                    }
                    RN::Numeric(r)
                }
                "avg" if vs.is_empty() => RN::Numeric(0.0),
                _ => {
                    // everything else is approximate: C10 / C11 test it directly
                    RN::Unspec("approximate function (C10/C11's business)")
                }
            }
        }
    }
}

pub fn val_to_n(v: &Val) -> Option<N> {
    match v {
        Val::NI(i) => Some(N::I(*i)),
        Val::NF(f) => Some(N::F(*f)),
        _ => None,
    }
}

fn num_eq(got: &Val, want: f64) -> bool {
    match got {
        Val::NI(i) => want.is_finite() && (*i as f64) == want && {
            // exact integer comparison where the double is integral
            want.fract() == 0.0 && want >= -9223372036854775808.0 && want < 9223372036854775808.0 && (want as i64) == *i
        },
        Val::NF(f) => {
            if want.is_nan() {
                f.is_nan()
            } else {
                *f == want
            }
        }
        _ => false,
    }
}

pub fn agrees(r: RN, got: &Outcome) -> Option<bool> {
    match (r, got) {
        (RN::Unspec(_), _) | (RN::Approx(_), _) => None,
        (RN::Err, Outcome::Err) => Some(true),
        (RN::Err, _) => Some(false),
        (RN::Exact(N::I(v)), Outcome::Ok(Val::NI(g))) => Some(v == *g),
        (RN::Exact(N::F(v)), Outcome::Ok(Val::NF(g))) => Some(if v.is_nan() { g.is_nan() } else { v.to_bits() == g.to_bits() }),
        (RN::Exact(_), _) => Some(false),
        (RN::Numeric(v), Outcome::Ok(g)) => Some(num_eq(g, v)),
        (RN::Numeric(_), _) => Some(false),
    }
}
