//! Reference evaluator for eval_complex — C08: own pair arithmetic; + - * and unary minus by the
//! textbook component formulas (bit-exact claim), everything else from exp/ln/atan2 based principal
//! branch definitions (approximate claim).

use crate::grammar::{BinOp, Br, E};
use crate::vocab;

pub type C = (f64, f64);

#[derive(Clone, Copy, Debug, PartialEq)]
pub enum RC {
    Exact(C),
    Approx(C),
    Unspec(&'static str),
}

impl RC {
    pub fn value(self) -> Option<C> {
        match self {
            RC::Exact(v) | RC::Approx(v) => Some(v),
            _ => None,
        }
    }
}

pub fn add(a: C, b: C) -> C {
    (a.0 + b.0, a.1 + b.1)
}
pub fn sub(a: C, b: C) -> C {
    (a.0 - b.0, a.1 - b.1)
}
pub fn mul(a: C, b: C) -> C {
    (a.0 * b.0 - a.1 * b.1, a.0 * b.1 + a.1 * b.0)
}
pub fn div(a: C, b: C) -> C {
    let d = b.0 * b.0 + b.1 * b.1;
    ((a.0 * b.0 + a.1 * b.1) / d, (a.1 * b.0 - a.0 * b.1) / d)
}
pub fn modulus(a: C) -> f64 {
    a.0.hypot(a.1)
}
pub fn cexp(a: C) -> C {
    let m = a.0.exp();
    (m * a.1.cos(), m * a.1.sin())
}
pub fn cln(a: C) -> C {
    (modulus(a).ln(), a.1.atan2(a.0))
}
pub fn cpow(a: C, w: C) -> C {
    cexp(mul(w, cln(a)))
}
pub fn csin(a: C) -> C {
    (a.0.sin() * a.1.cosh(), a.0.cos() * a.1.sinh())
}
pub fn ccos(a: C) -> C {
    (a.0.cos() * a.1.cosh(), -(a.0.sin() * a.1.sinh()))
}
pub fn csinh(a: C) -> C {
    (a.0.sinh() * a.1.cos(), a.0.cosh() * a.1.sin())
}
pub fn ccosh(a: C) -> C {
    (a.0.cosh() * a.1.cos(), a.0.sinh() * a.1.sin())
}
pub fn ctan(a: C) -> C {
    div(csin(a), ccos(a))
}
pub fn ctanh(a: C) -> C {
    div(csinh(a), ccosh(a))
}

pub fn lit(s: &str) -> Option<C> {
    if let Some(body) = s.strip_prefix("cpx:") {
        // internal: an operand given by its bit patterns (never sent to the library)
        let (a, b) = body.split_once(':')?;
        return Some((f64::from_bits(u64::from_str_radix(a, 16).ok()?), f64::from_bits(u64::from_str_radix(b, 16).ok()?)));
    }
    if s == "i" {
        return Some((0.0, 1.0));
    }
    if let Some(body) = s.strip_suffix('i') {
        return body.parse::<f64>().ok().map(|v| (0.0, v));
    }
    s.parse::<f64>().ok().map(|v| (v, 0.0))
}

fn bin(a: RC, b: RC, exact: bool, f: impl Fn(C, C) -> C) -> RC {
    match (a, b) {
        (RC::Unspec(w), _) | (_, RC::Unspec(w)) => RC::Unspec(w),
        (RC::Exact(x), RC::Exact(y)) if exact => RC::Exact(f(x, y)),
        (x, y) => RC::Approx(f(x.value().unwrap(), y.value().unwrap())),
    }
}

fn un(a: RC, exact: bool, f: impl Fn(C) -> C) -> RC {
    match a {
        RC::Unspec(w) => RC::Unspec(w),
        RC::Exact(x) if exact => RC::Exact(f(x)),
        x => RC::Approx(f(x.value().unwrap())),
    }
}

pub fn eval(e: &E, ph: C) -> RC {
    match e {
        E::Lit(s) => lit(s).map(RC::Exact).unwrap_or(RC::Unspec("literal")),
        E::Const(c) => RC::Exact((if *c == "e" { std::f64::consts::E } else { std::f64::consts::PI }, 0.0)),
        E::Ans => RC::Exact(ph),
        E::Pos(a) => eval(a, ph),
        E::Group(Br::Round, a) => eval(a, ph),
        E::Group(_, _) => RC::Unspec("bracket not in eval_complex"),
        E::Neg(a) => un(eval(a, ph), true, |z| (-z.0, -z.1)),
        E::Bin(op, a, b) => {
            let (x, y) = (eval(a, ph), eval(b, ph));
            match op {
                BinOp::Add => bin(x, y, true, add),
                BinOp::Sub => bin(x, y, true, sub),
                BinOp::Mul => bin(x, y, true, mul),
                BinOp::Div => bin(x, y, false, div),
                BinOp::Pow => bin(x, y, false, cpow),
                _ => RC::Unspec("operator not in eval_complex"),
            }
        }
        E::Juxt(a, b) => bin(eval(a, ph), eval(b, ph), true, mul),
        E::Sup(a, d) => match d.parse::<f64>() {
            Ok(n) => bin(eval(a, ph), RC::Exact((n, 0.0)), false, cpow),
            Err(_) => RC::Unspec("superscript"),
        },
        E::Fact(_) => RC::Unspec("not in eval_complex"),
        E::Deg(a) => un(eval(a, ph), false, |z| mul(z, (std::f64::consts::PI / 180.0, 0.0))),
        E::Rad(a) => un(eval(a, ph), false, |z| mul(z, (180.0 / std::f64::consts::PI, 0.0))),
        E::Call(name, args) => {
            let canon = vocab::all_canon(name);
            let vs: Vec<RC> = args.iter().map(|a| eval(a, ph)).collect();
            if let Some(RC::Unspec(w)) = vs.iter().find(|v| matches!(v, RC::Unspec(_))) {
                return RC::Unspec(w);
            }
            let z = vs[0];
            match canon {
                "abs" => un(z, false, |z| (modulus(z), 0.0)),
                "exp" => un(z, false, cexp),
                "exp2" => un(z, false, |z| cexp(mul(z, (std::f64::consts::LN_2, 0.0)))),
                "ln" => un(z, false, cln),
                "lb" => un(z, false, |z| div(cln(z), (std::f64::consts::LN_2, 0.0))),
                "sqrt" => un(z, false, |z| cpow(z, (0.5, 0.0))),
                "sin" => un(z, false, csin),
                "cos" => un(z, false, ccos),
                "tan" => un(z, false, ctan),
                "sinh" => un(z, false, csinh),
                "cosh" => un(z, false, ccosh),
                "tanh" => un(z, false, ctanh),
                "pow" => bin(vs[0], vs[1], false, cpow),
                "root" => bin(vs[0], vs[1], false, |n, x| cpow(x, div((1.0, 0.0), n))),
                "log" => bin(vs[0], vs[1], false, |x, b| div(cln(x), cln(b))),
                "asin" | "acos" | "atan" | "asinh" | "acosh" | "atanh" => RC::Unspec("inverse function: checked by its defining identity in C08"),
                _ => RC::Unspec("function not in eval_complex"),
            }
        }
    }
}

/// |got - want| <= rel * |want|   (NaN components must match NaN)
pub fn close(got: C, want: C, rel: f64) -> bool {
    if want.0.is_nan() || want.1.is_nan() {
        return got.0.is_nan() || got.1.is_nan();
    }
    if !(want.0.is_finite() && want.1.is_finite()) {
        return got.0 == want.0 && got.1 == want.1 || (!got.0.is_finite() || !got.1.is_finite());
    }
    modulus(sub(got, want)) <= rel * modulus(want).max(f64::MIN_POSITIVE)
}
