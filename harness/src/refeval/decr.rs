//! Reference evaluator for eval_decimal — C07 literally: exact decimal values n / 10^scale on big
//! integers. "Representable" = some coefficient < 2^96 with scale <= 28 equals the value.

use crate::big::{BigI, BigU};
use crate::grammar::{BinOp, Br, E};
use crate::vocab;
use rust_decimal::Decimal;
use std::cmp::Ordering;

/// exact decimal: n / 10^scale
#[derive(Clone, Debug, PartialEq)]
pub struct DecV {
    pub n: BigI,
    pub scale: u32,
}

fn two96() -> BigU {
    BigU::from_u128(1u128 << 96)
}

impl DecV {
    pub fn from_i64(v: i64) -> DecV {
        DecV { n: BigI::from_i128(v as i128), scale: 0 }
    }
    pub fn from_decimal(d: &Decimal) -> DecV {
        DecV { n: BigI::from_i128(d.mantissa()), scale: d.scale() }
    }
    pub fn from_literal(s: &str) -> Option<DecV> {
        let (ip, fp) = match s.split_once('.') {
            Some((a, b)) => (a, b),
            None => (s, ""),
        };
        let digits = format!("{}{}", ip, fp);
        let digits = if digits.is_empty() { "0".to_string() } else { digits };
        Some(DecV { n: BigI::from_parts(false, BigU::from_dec_str(&digits)?), scale: fp.len() as u32 })
    }
    /// drop trailing zeros of the coefficient while the scale is positive
    pub fn normalized(&self) -> DecV {
        let mut m = self.n.m.clone();
        let mut s = self.scale;
        while s > 0 && !m.is_zero() {
            let (q, r) = m.divrem_small(10);
            if r != 0 {
                break;
            }
            m = q;
            s -= 1;
        }
        if m.is_zero() {
            s = 0;
        }
        DecV { n: BigI::from_parts(self.n.neg, m), scale: s }
    }
    pub fn representable(&self) -> bool {
        let n = self.normalized();
        n.scale <= 28 && n.n.m.cmp(&two96()) == Ordering::Less
    }
    /// |value| > Decimal::MAX
    pub fn out_of_range(&self) -> bool {
        // |n| / 10^scale >= 2^96  <=>  |n| >= 2^96 * 10^scale   (MAX = 2^96 - 1; values in (MAX, 2^96) round to MAX or overflow:
        // treat anything strictly above MAX as out of range only when its integer part exceeds MAX)
        let lim = two96().mul(&BigU::pow10(self.scale));
        self.n.m.cmp(&lim) != Ordering::Less
    }
    fn align(a: &DecV, b: &DecV) -> (BigI, BigI, u32) {
        let s = a.scale.max(b.scale);
        let an = BigI::from_parts(a.n.neg, a.n.m.mul(&BigU::pow10(s - a.scale)));
        let bn = BigI::from_parts(b.n.neg, b.n.m.mul(&BigU::pow10(s - b.scale)));
        (an, bn, s)
    }
    pub fn add(&self, o: &DecV) -> DecV {
        let (a, b, s) = DecV::align(self, o);
        DecV { n: a.add(&b), scale: s }
    }
    pub fn sub(&self, o: &DecV) -> DecV {
        let (a, b, s) = DecV::align(self, o);
        DecV { n: a.sub(&b), scale: s }
    }
    pub fn mul(&self, o: &DecV) -> DecV {
        DecV { n: self.n.mul(&o.n), scale: self.scale + o.scale }
    }
    pub fn neg(&self) -> DecV {
        DecV { n: self.n.neg(), scale: self.scale }
    }
    pub fn cmp(&self, o: &DecV) -> Ordering {
        let (a, b, _) = DecV::align(self, o);
        a.cmp(&b)
    }
    pub fn is_zero(&self) -> bool {
        self.n.is_zero()
    }
    pub fn eq_value(&self, o: &DecV) -> bool {
        self.cmp(o) == Ordering::Equal
    }
    /// integer part truncated toward zero, and whether a fraction was dropped
    pub fn trunc(&self) -> (DecV, bool) {
        let (q, r) = self.n.m.divrem(&BigU::pow10(self.scale));
        (DecV { n: BigI::from_parts(self.n.neg, q), scale: 0 }, !r.is_zero())
    }
    pub fn show(&self) -> String {
        let n = self.normalized();
        let digits = n.n.m.to_dec_string();
        let s = n.scale as usize;
        let body = if s == 0 {
            digits
        } else if digits.len() > s {
            format!("{}.{}", &digits[..digits.len() - s], &digits[digits.len() - s..])
        } else {
            format!("0.{}{}", "0".repeat(s - digits.len()), digits)
        };
        format!("{}{}", if n.n.neg { "-" } else { "" }, body)
    }
    pub fn to_f64(&self) -> f64 {
        self.show().parse().unwrap_or(f64::NAN)
    }
}

#[derive(Clone, Debug, PartialEq)]
pub enum RD {
    /// exact and representable: the result must equal it (by value)
    Val(DecV),
    /// exact quotient num/den not representable: result within 1e-27*max(1,|q|)
    Quot(DecV, DecV),
    Err,
    Unspec(&'static str),
}

fn check(v: DecV) -> RD {
    // far beyond anything a Decimal can hold exactly: do not spend time on exact bookkeeping
    if !v.is_zero() && (v.scale > 300 || v.n.m.bits() > 6000) {
        let digits = v.n.m.bits() as f64 * 0.30103;
        return if digits - v.scale as f64 > 40.0 { RD::Err } else { RD::Unspec("far outside the exactly representable range") };
    }
    if v.out_of_range() {
        RD::Err
    } else if v.representable() {
        RD::Val(v)
    } else {
        RD::Unspec("in range but needs rounding")
    }
}

pub fn div(a: &DecV, b: &DecV) -> RD {
    if b.is_zero() {
        return RD::Err;
    }
    // q = (a.n / b.n) * 10^(b.scale - a.scale); try to express at scale 28+: q * 10^k integer?
    // exact test: a.n * 10^(b.scale + K) divisible by b.n * 10^(a.scale) for K = 28
    let k = 28u32;
    let num = a.n.m.mul(&BigU::pow10(b.scale + k));
    let den = b.n.m.mul(&BigU::pow10(a.scale));
    let (q, r) = num.divrem(&den);
    let neg = a.n.neg != b.n.neg;
    let qv = DecV { n: BigI::from_parts(neg, q), scale: k };
    if qv.out_of_range() {
        return RD::Err;
    }
    if r.is_zero() {
        if qv.representable() {
            return RD::Val(qv);
        }
        return RD::Quot(a.clone(), b.clone());
    }
    RD::Quot(a.clone(), b.clone())
}

pub fn rem(a: &DecV, b: &DecV) -> RD {
    if b.is_zero() {
        return RD::Err;
    }
    // r = a - b * trunc(a / b), sign of the dividend
    let (an, bn, s) = DecV::align(a, b);
    let (_, r) = an.m.divrem(&bn.m);
    check(DecV { n: BigI::from_parts(a.n.neg, r), scale: s })
}

fn round_half_even(v: &DecV) -> DecV {
    let p = BigU::pow10(v.scale);
    let (q, r) = v.n.m.divrem(&p);
    let twice = r.shl(1);
    let q2 = match twice.cmp(&p) {
        Ordering::Less => q,
        Ordering::Greater => q.add(&BigU::from_u64(1)),
        Ordering::Equal => {
            if q.is_even() {
                q
            } else {
                q.add(&BigU::from_u64(1))
            }
        }
    };
    DecV { n: BigI::from_parts(v.n.neg, q2), scale: 0 }
}

fn vals(args: &[RD]) -> Result<Vec<DecV>, RD> {
    let mut out = Vec::new();
    if args.iter().any(|a| *a == RD::Err) {
        return Err(RD::Err);
    }
    for a in args {
        match a {
            RD::Val(v) => out.push(v.clone()),
            RD::Unspec(w) => return Err(RD::Unspec(w)),
            RD::Quot(_, _) => return Err(RD::Unspec("inexact quotient as operand")),
            RD::Err => unreachable!(),
        }
    }
    Ok(out)
}

pub fn eval(e: &E, ph: &Decimal) -> RD {
    match e {
        E::Lit(s) => match DecV::from_literal(s) {
            Some(v) if v.representable() => RD::Val(v),
            _ => RD::Unspec("literal"),
        },
        E::Const(_) => RD::Unspec("constants are approximate"),
        E::Ans => RD::Val(DecV::from_decimal(ph)),
        E::Pos(a) => eval(a, ph),
        E::Group(Br::Round, a) => eval(a, ph),
        E::Group(br, a) => match vals(&[eval(a, ph)]) {
            Ok(v) => {
                let (t, frac) = v[0].trunc();
                let one = DecV::from_i64(1);
                let r = match br {
                    Br::Floor if frac && v[0].n.neg => t.sub(&one),
                    Br::Ceil if frac && !v[0].n.neg => t.add(&one),
                    _ => t,
                };
                check(r)
            }
            Err(r) => r,
        },
        E::Neg(a) => match vals(&[eval(a, ph)]) {
            Ok(v) => RD::Val(v[0].neg()),
            Err(r) => r,
        },
        E::Bin(op, a, b) => {
            let v = match vals(&[eval(a, ph), eval(b, ph)]) {
                Ok(v) => v,
                Err(r) => return r,
            };
            match op {
                BinOp::Add => check(v[0].add(&v[1])),
                BinOp::Sub => check(v[0].sub(&v[1])),
                BinOp::Mul => check(v[0].mul(&v[1])),
                BinOp::Div => div(&v[0], &v[1]),
                BinOp::Mod => rem(&v[0], &v[1]),
                BinOp::Pow => pow(&v[0], &v[1]),
                _ => RD::Unspec("operator not in eval_decimal"),
            }
        }
        E::Juxt(a, b) => match vals(&[eval(a, ph), eval(b, ph)]) {
            Ok(v) => check(v[0].mul(&v[1])),
            Err(r) => r,
        },
        E::Sup(a, d) => match (vals(&[eval(a, ph)]), DecV::from_literal(d)) {
            (Ok(v), Some(n)) => pow(&v[0], &n),
            (Err(r), _) => r,
            _ => RD::Unspec("superscript"),
        },
        E::Fact(a) => match vals(&[eval(a, ph)]) {
            Ok(v) => {
                let (t, frac) = v[0].trunc();
                if frac {
                    return RD::Unspec("non-integer factorial (C10's business)");
                }
                if v[0].n.neg && !v[0].is_zero() {
                    return RD::Unspec("factorial of a negative integer");
                }
                match t.n.m.to_u128() {
                    Some(n) if n <= 27 => {
                        let mut r = DecV::from_i64(1);
                        for i in 2..=n as i64 {
                            r = r.mul(&DecV::from_i64(i));
                        }
                        RD::Val(r)
                    }
                    _ => RD::Err,
                }
            }
            Err(r) => r,
        },
        E::Deg(_) | E::Rad(_) => RD::Unspec("not in eval_decimal"),
        E::Call(name, args) => {
            let canon = vocab::all_canon(name);
            let rs: Vec<RD> = args.iter().map(|a| eval(a, ph)).collect();
            let v = match vals(&rs) {
                Ok(v) => v,
                Err(r) => return r,
            };
            let one = DecV::from_i64(1);
            match canon {
                "abs" => RD::Val(DecV { n: v[0].n.abs(), scale: v[0].scale }),
                "sgn" => RD::Val(if v[0].is_zero() { DecV::from_i64(0) } else if v[0].n.neg { DecV::from_i64(-1) } else { one }),
                "mod" => rem(&v[0], &v[1]),
                "pow" => pow(&v[0], &v[1]),
                "trunc" => RD::Val(v[0].trunc().0),
                "floor" => {
                    let (t, frac) = v[0].trunc();
                    check(if frac && v[0].n.neg { t.sub(&one) } else { t })
                }
                "ceil" => {
                    let (t, frac) = v[0].trunc();
                    check(if frac && !v[0].n.neg { t.add(&one) } else { t })
                }
                "round" => check(round_half_even(&v[0])),
                "min" => RD::Val(v.iter().cloned().min_by(|a, b| a.cmp(b)).unwrap()),
                "max" => RD::Val(v.iter().cloned().max_by(|a, b| a.cmp(b)).unwrap()),
                "avg" => {
                    if v.is_empty() {
                        return RD::Val(DecV::from_i64(0));
                    }
                    let mut s = DecV::from_i64(0);
                    for x in &v {
                        s = s.add(x);
                        match check(s.clone()) {
                            RD::Val(_) => {}
                            // a partial sum that overflows or needs rounding: no claim
                            _ => return RD::Unspec("partial sum not exactly representable"),
                        }
                    }
                    div(&s, &DecV::from_i64(v.len() as i64))
                }
                "med" => {
                    let mut xs = v.clone();
                    xs.sort_by(|a, b| a.cmp(b));
                    let n = xs.len();
                    if n % 2 == 1 {
                        RD::Val(xs[n / 2].clone())
                    } else {
                        let s = xs[n / 2 - 1].add(&xs[n / 2]);
                        match check(s.clone()) {
                            RD::Val(_) => div(&s, &DecV::from_i64(2)),
                            _ => RD::Unspec("sum of the middle values not exactly representable"),
                        }
                    }
                }
                _ => RD::Unspec("approximate function (C10's business)"),
            }
        }
    }
}

/// x^n for a small non-negative integer exponent, exact; anything else is C10's (approximate) business.
fn pow(x: &DecV, n: &DecV) -> RD {
    let nn = n.normalized();
    if nn.scale != 0 || nn.n.neg {
        return RD::Unspec("non-integer or negative exponent (approximate)");
    }
    let k = match nn.n.m.to_u128() {
        Some(k) if k <= 64 => k as u32,
        _ => return RD::Unspec("large exponent"),
    };
    let mut r = DecV::from_i64(1);
    for _ in 0..k {
        r = r.mul(x);
        match check(r.clone()) {
            RD::Val(_) => {}
            RD::Err => return RD::Err,
            _ => return RD::Unspec("power needs rounding"),
        }
    }
    RD::Val(r)
}

/// Does the observed outcome agree with the reference?  None = no claim.
pub fn agrees(r: &RD, got: &crate::api::Outcome) -> Option<bool> {
    use crate::api::{Outcome, Val};
    match (r, got) {
        (RD::Unspec(_), _) => None,
        (RD::Err, Outcome::Err) => Some(true),
        (RD::Err, _) => Some(false),
        (RD::Val(v), Outcome::Ok(Val::D(d))) => Some(DecV::from_decimal(d).eq_value(v)),
        (RD::Val(_), _) => Some(false),
        (RD::Quot(a, b), Outcome::Ok(Val::D(d))) => {
            // |d*b - a| <= 1e-27 * max(|b|, |a|)   (the tolerance 1e-27*max(1,|a/b|) multiplied by |b|)
            let g = DecV::from_decimal(d);
            let lhs = g.mul(b).sub(a);
            let lhs = DecV { n: lhs.n.abs(), scale: lhs.scale };
            let babs = DecV { n: b.n.abs(), scale: b.scale };
            let aabs = DecV { n: a.n.abs(), scale: a.scale };
            let m = if babs.cmp(&aabs) == Ordering::Less { aabs } else { babs };
            let tol = DecV { n: m.n.clone(), scale: m.scale + 27 };
            Some(lhs.cmp(&tol) != Ordering::Greater)
        }
        (RD::Quot(_, _), _) => Some(false),
    }
}
