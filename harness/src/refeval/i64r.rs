//! Reference evaluator for eval_i64 — C06 literally: exact integers in i128 with a range check after
//! every node; `Err` where C06 demands an error; `Unspec` where it does not speak.

use crate::grammar::{BinOp, Br, E};
use crate::vocab;

#[derive(Clone, Copy, Debug, PartialEq)]
pub enum RI {
    Val(i64),
    /// must be an error
    Err,
    /// the value, or an error (an intermediate of an aggregate left i64)
    ValOrErr(i64),
    Unspec(&'static str),
}

fn fit(v: i128) -> RI {
    if v >= i64::MIN as i128 && v <= i64::MAX as i128 {
        RI::Val(v as i64)
    } else {
        RI::Err
    }
}

/// exact power, saturating the magnitude beyond i64 (returns None on overflow of i64)
pub fn pow_exact(base: i64, exp: u64) -> Option<i64> {
    match base {
        0 => Some(if exp == 0 { 1 } else { 0 }),
        1 => Some(1),
        -1 => Some(if exp % 2 == 0 { 1 } else { -1 }),
        _ => {
            if exp > 64 {
                return None;
            }
            let mut r: i128 = 1;
            for _ in 0..exp {
                r *= base as i128;
                if r > i64::MAX as i128 || r < i64::MIN as i128 {
                    // may still come back in range? no: |base| >= 2, magnitude only grows
                    return None;
                }
            }
            Some(r as i64)
        }
    }
}

pub fn gcd_u(mut a: u128, mut b: u128) -> u128 {
    while b != 0 {
        let t = a % b;
        a = b;
        b = t;
    }
    a
}

fn two(a: RI, b: RI) -> Result<(i64, i64), RI> {
    match (a, b) {
        (RI::Err, _) => Err(RI::Err),
        // evaluation order: the left operand fails first, an Unspec left makes everything unspecified
        (_, RI::Err) => Err(RI::Err),
        (RI::Unspec(w), _) => Err(RI::Unspec(w)),
        (RI::ValOrErr(_), _) | (_, RI::ValOrErr(_)) => Err(RI::Unspec("aggregate with overflowing intermediate")),
        (RI::Val(_), RI::Unspec(w)) => Err(RI::Unspec(w)),
        (RI::Val(x), RI::Val(y)) => Ok((x, y)),
    }
}

pub fn eval(e: &E, ph: i64) -> RI {
    match e {
        E::Lit(s) => match s.parse::<i64>() {
            Ok(v) => RI::Val(v),
            Err(_) => RI::Unspec("literal"),
        },
        E::Const(_) => RI::Unspec("constant not in eval_i64"),
        E::Ans => RI::Val(ph),
        E::Pos(a) => eval(a, ph),
        E::Group(Br::Round, a) => eval(a, ph),
        E::Group(_, _) => RI::Unspec("bracket not in eval_i64"),
        E::Neg(a) => match eval(a, ph) {
            RI::Val(x) => fit(-(x as i128)),
            RI::ValOrErr(_) => RI::Unspec("aggregate with overflowing intermediate"),
            o => o,
        },
        E::Bin(op, a, b) => {
            let (x, y) = match two(eval(a, ph), eval(b, ph)) {
                Ok(p) => p,
                Err(r) => return r,
            };
            let (xi, yi) = (x as i128, y as i128);
            match op {
                BinOp::Add => fit(xi + yi),
                BinOp::Sub => fit(xi - yi),
                BinOp::Mul => fit(xi * yi),
                BinOp::Div => {
                    if y == 0 {
                        RI::Err
                    } else {
                        fit(xi / yi)
                    }
                }
                BinOp::Mod => {
                    if y == 0 {
                        RI::Err
                    } else {
                        fit(xi % yi)
                    }
                }
                BinOp::Pow => pow_node(x, y),
                BinOp::And => RI::Val(x & y),
                BinOp::Or => RI::Val(x | y),
                BinOp::Shl => {
                    if !(0..=63).contains(&y) {
                        RI::Err
                    } else {
                        let v = xi << y;
                        if v >= i64::MIN as i128 && v <= i64::MAX as i128 {
                            RI::Val(v as i64)
                        } else {
                            RI::Unspec("<< whose result does not fit")
                        }
                    }
                }
                BinOp::Shr => {
                    if !(0..=63).contains(&y) {
                        RI::Err
                    } else {
                        // floor(x / 2^y)
                        RI::Val(xi.div_euclid(1i128 << y) as i64)
                    }
                }
            }
        }
        E::Juxt(a, b) => match two(eval(a, ph), eval(b, ph)) {
            Ok((x, y)) => fit(x as i128 * y as i128),
            Err(r) => r,
        },
        E::Sup(a, d) => match (eval(a, ph), d.parse::<i64>()) {
            (RI::Val(x), Ok(n)) => pow_node(x, n),
            (RI::ValOrErr(_), _) => RI::Unspec("aggregate with overflowing intermediate"),
            (o, Ok(_)) => o,
            _ => RI::Unspec("superscript"),
        },
        E::Fact(a) => match eval(a, ph) {
            RI::Val(n) => {
                if n < 0 {
                    RI::Unspec("factorial of a negative integer")
                } else if n > 20 {
                    RI::Err
                } else {
                    RI::Val((1..=n).product())
                }
            }
            RI::ValOrErr(_) => RI::Unspec("aggregate with overflowing intermediate"),
            o => o,
        },
        E::Deg(_) | E::Rad(_) => RI::Unspec("not in eval_i64"),
        E::Call(name, args) => {
            let canon = vocab::all_canon(name);
            let mut vals = Vec::new();
            for a in args {
                match eval(a, ph) {
                    RI::Val(v) => vals.push(v),
                    RI::Err => return RI::Err,
                    RI::ValOrErr(_) => return RI::Unspec("aggregate with overflowing intermediate"),
                    RI::Unspec(w) => return RI::Unspec(w),
                }
            }
            match canon {
                "abs" => fit((vals[0] as i128).abs()),
                "sgn" => RI::Val(vals[0].signum()),
                "mod" => {
                    if vals[1] == 0 {
                        RI::Err
                    } else {
                        fit(vals[0] as i128 % vals[1] as i128)
                    }
                }
                "pow" => pow_node(vals[0], vals[1]),
                "min" => RI::Val(*vals.iter().min().unwrap()),
                "max" => RI::Val(*vals.iter().max().unwrap()),
                "avg" => {
                    if vals.is_empty() {
                        return RI::Val(0);
                    }
                    let mut prefix_ok = true;
                    let mut s: i128 = 0;
                    for v in &vals {
                        s += *v as i128;
                        if s > i64::MAX as i128 || s < i64::MIN as i128 {
                            prefix_ok = false;
                        }
                    }
                    let m = (s / vals.len() as i128) as i64;
                    if prefix_ok {
                        RI::Val(m)
                    } else {
                        RI::ValOrErr(m)
                    }
                }
                "med" => {
                    let mut xs = vals.clone();
                    xs.sort();
                    let n = xs.len();
                    if n % 2 == 1 {
                        RI::Val(xs[n / 2])
                    } else {
                        let s = xs[n / 2 - 1] as i128 + xs[n / 2] as i128;
                        let m = (s / 2) as i64;
                        if s > i64::MAX as i128 || s < i64::MIN as i128 {
                            RI::ValOrErr(m)
                        } else {
                            RI::Val(m)
                        }
                    }
                }
                "gcd" => {
                    let g = vals.iter().fold(0u128, |g, v| gcd_u(g, (*v as i128).unsigned_abs()));
                    if g > i64::MAX as u128 {
                        RI::Err
                    } else {
                        RI::Val(g as i64)
                    }
                }
                "lcm" => {
                    let mut l: u128 = 1;
                    let mut over = false;
                    let mut zero = false;
                    for v in &vals {
                        let a = (*v as i128).unsigned_abs();
                        if a == 0 {
                            zero = true;
                            continue;
                        }
                        if !over {
                            let g = gcd_u(l, a);
                            match (l / g).checked_mul(a) {
                                Some(x) if x <= i64::MAX as u128 => l = x,
                                _ => over = true,
                            }
                        }
                    }
                    if zero {
                        if over {
                            RI::ValOrErr(0)
                        } else {
                            // an intermediate lcm in the written order may still overflow only if the lcm of the
                            // non-zero arguments does, which `over` covers
                            RI::Val(0)
                        }
                    } else if over {
                        RI::Err
                    } else {
                        RI::Val(l as i64)
                    }
                }
                // real-valued functions: C10 ("within 1"), not part of C06's exact sub-language
                _ => RI::Unspec("real-valued function in eval_i64"),
            }
        }
    }
}

fn pow_node(x: i64, y: i64) -> RI {
    if !(0..=4294967295i64).contains(&y) {
        return RI::Unspec("exponent outside 0..4294967295");
    }
    match pow_exact(x, y as u64) {
        Some(v) => RI::Val(v),
        None => RI::Err,
    }
}

/// Does an observed outcome agree with the reference?
pub fn agrees(r: RI, got: &crate::api::Outcome) -> Option<bool> {
    use crate::api::{Outcome, Val};
    match (r, got) {
        (RI::Unspec(_), _) => None,
        (RI::Val(v), Outcome::Ok(Val::I(g))) => Some(v == *g),
        (RI::Val(_), _) => Some(false),
        (RI::Err, Outcome::Err) => Some(true),
        (RI::Err, _) => Some(false),
        (RI::ValOrErr(v), Outcome::Ok(Val::I(g))) => Some(v == *g),
        (RI::ValOrErr(_), Outcome::Err) => Some(true),
        (RI::ValOrErr(_), _) => Some(false),
    }
}
