//! Per-evaluator vocabulary, written from README.md and the property texts (DESIGN.md appendix A).

use crate::api::Ev;

#[derive(Clone, Copy, PartialEq, Eq, Debug)]
pub enum Arity {
    One,
    Two,
    /// variadic, at least one argument
    Var1,
    /// variadic, may be empty (avg)
    Var0,
}

#[derive(Clone, Copy, Debug)]
pub struct Func {
    /// spelling in the input
    pub name: &'static str,
    /// canonical function (aliases share it)
    pub canon: &'static str,
    pub arity: Arity,
}

const fn f(name: &'static str, canon: &'static str, arity: Arity) -> Func {
    Func { name, canon, arity }
}

use Arity::*;

const COMMON1: [Func; 9] = [
    f("abs", "abs", One),
    f("sgn", "sgn", One),
    f("sign", "sgn", One),
    f("signum", "sgn", One),
    f("sqrt", "sqrt", One),
    f("exp", "exp", One),
    f("exp2", "exp2", One),
    f("ln", "ln", One),
    f("lb", "lb", One),
];
const ROUNDING: [Func; 5] = [
    f("trunc", "trunc", One),
    f("truncate", "trunc", One),
    f("floor", "floor", One),
    f("ceil", "ceil", One),
    f("round", "round", One),
];
const TRIG: [Func; 15] = [
    f("sin", "sin", One),
    f("cos", "cos", One),
    f("tan", "tan", One),
    f("sinh", "sinh", One),
    f("cosh", "cosh", One),
    f("tanh", "tanh", One),
    f("asin", "asin", One),
    f("acos", "acos", One),
    f("atan", "atan", One),
    f("asinh", "asinh", One),
    f("arsinh", "asinh", One),
    f("acosh", "acosh", One),
    f("arcosh", "acosh", One),
    f("atanh", "atanh", One),
    f("artanh", "atanh", One),
];
const LAMBERT: [Func; 2] = [f("w", "w", One), f("lambert_w", "w", One)];
const BIN_COMMON: [Func; 4] = [f("pow", "pow", Two), f("root", "root", Two), f("mod", "mod", Two), f("log", "log", Two)];
const AGG: [Func; 5] = [
    f("min", "min", Var1),
    f("max", "max", Var1),
    f("med", "med", Var1),
    f("median", "med", Var1),
    f("avg", "avg", Var0),
];

pub fn funcs(ev: Ev) -> Vec<Func> {
    let mut v: Vec<Func> = Vec::new();
    match ev {
        Ev::F64 | Ev::Num => {
            v.extend(COMMON1);
            v.extend(ROUNDING);
            v.extend(TRIG);
            v.extend(LAMBERT);
            v.extend(BIN_COMMON);
            v.push(f("ilog", "ilog", Two));
            v.push(f("atan2", "atan2", Two));
            v.extend(AGG);
        }
        Ev::Dec => {
            v.extend(COMMON1);
            v.extend(ROUNDING);
            v.extend(LAMBERT);
            v.extend(BIN_COMMON);
            v.push(f("ilog", "ilog", Two));
            v.extend(AGG);
        }
        Ev::I64 => {
            v.extend(COMMON1);
            v.extend(BIN_COMMON);
            v.extend(AGG);
            v.push(f("gcd", "gcd", Var1));
            v.push(f("lcm", "lcm", Var1));
        }
        Ev::Cpx => {
            v.push(f("abs", "abs", One));
            v.extend(COMMON1[4..].iter().copied());
            v.extend(TRIG);
            v.push(f("pow", "pow", Two));
            v.push(f("root", "root", Two));
            v.push(f("log", "log", Two));
        }
    }
    v
}

pub fn func(ev: Ev, name: &str) -> Option<Func> {
    use std::sync::OnceLock;
    static CELLS: [OnceLock<Vec<Func>>; 5] = [OnceLock::new(), OnceLock::new(), OnceLock::new(), OnceLock::new(), OnceLock::new()];
    CELLS[ev.idx()].get_or_init(|| funcs(ev)).iter().find(|x| x.name == name).copied()
}

/// Every function spelling of any evaluator (for foreign-token generation).
pub fn all_func_names() -> Vec<&'static str> {
    let mut v: Vec<&'static str> = Vec::new();
    for ev in Ev::ALL {
        for x in funcs(ev) {
            if !v.contains(&x.name) {
                v.push(x.name);
            }
        }
    }
    v
}

pub fn consts(ev: Ev) -> &'static [&'static str] {
    match ev {
        Ev::I64 => &[],
        _ => &["pi", "π", "e"],
    }
}

/// Infix operator spellings.
pub fn infix(ev: Ev) -> &'static [&'static str] {
    match ev {
        Ev::I64 => &["+", "-", "*", "/", "%", "^", "&", "|", "<<", ">>"],
        Ev::Cpx => &["+", "-", "*", "/", "^"],
        _ => &["+", "-", "*", "/", "%", "^"],
    }
}

pub fn has_fact(ev: Ev) -> bool {
    ev != Ev::Cpx
}
pub fn has_deg(ev: Ev) -> bool {
    matches!(ev, Ev::F64 | Ev::Num | Ev::Cpx)
}
pub fn has_floor_brackets(ev: Ev) -> bool {
    matches!(ev, Ev::F64 | Ev::Num | Ev::Dec)
}
pub fn has_point(ev: Ev) -> bool {
    ev != Ev::I64
}

/// The 25 code points with the Unicode White_Space property (hard-coded on purpose).
pub const WHITE_SPACE: [char; 25] = [
    '\u{0009}', '\u{000A}', '\u{000B}', '\u{000C}', '\u{000D}', '\u{0020}', '\u{0085}', '\u{00A0}', '\u{1680}', '\u{2000}',
    '\u{2001}', '\u{2002}', '\u{2003}', '\u{2004}', '\u{2005}', '\u{2006}', '\u{2007}', '\u{2008}', '\u{2009}', '\u{200A}',
    '\u{2028}', '\u{2029}', '\u{202F}', '\u{205F}', '\u{3000}',
];

pub fn is_ws(c: char) -> bool {
    WHITE_SPACE.contains(&c)
}

pub const SUP_DIGITS: [char; 10] = ['⁰', '¹', '²', '³', '⁴', '⁵', '⁶', '⁷', '⁸', '⁹'];

pub fn sup_to_ascii(c: char) -> Option<char> {
    SUP_DIGITS.iter().position(|&x| x == c).map(|i| (b'0' + i as u8) as char)
}
pub fn ascii_to_sup(s: &str) -> String {
    s.chars().map(|c| SUP_DIGITS[(c as u8 - b'0') as usize]).collect()
}

/// Alias groups of C13 (token-level synonyms).
pub const ALIAS_GROUPS: [&[&str]; 8] = [
    &["pi", "π"],
    &["sgn", "sign", "signum"],
    &["med", "median"],
    &["trunc", "truncate"],
    &["w", "lambert_w"],
    &["asinh", "arsinh"],
    &["acosh", "arcosh"],
    &["atanh", "artanh"],
];

/// Canonical function name of a spelling (any evaluator).
pub fn all_canon(name: &str) -> &'static str {
    for ev in Ev::ALL {
        if let Some(f) = func(ev, name) {
            return f.canon;
        }
    }
    "?"
}
