//! The only module that calls `string_calculator::eval_*`.
//! Every call runs under `catch_unwind`, a silent panic hook and an armed step budget.

use num_complex::Complex;
use rust_decimal::Decimal;
use std::cell::RefCell;
use std::panic::{self, AssertUnwindSafe};
use std::str::FromStr;
#[cfg(feature = "hooks")]
use string_calculator::verif_hooks::{self, BudgetExceeded};

/// false in the build that links the crate without its `verif_hooks` feature (no step counts, no budget)
pub const HOOKS: bool = cfg!(feature = "hooks");
use string_calculator::Number;

#[derive(Clone, Copy, PartialEq, Eq, Hash, Debug, PartialOrd, Ord)]
pub enum Ev {
    F64,
    I64,
    Dec,
    Cpx,
    Num,
}

impl Ev {
    pub const ALL: [Ev; 5] = [Ev::F64, Ev::I64, Ev::Dec, Ev::Cpx, Ev::Num];
    pub fn name(self) -> &'static str {
        match self {
            Ev::F64 => "f64",
            Ev::I64 => "i64",
            Ev::Dec => "decimal",
            Ev::Cpx => "complex",
            Ev::Num => "number",
        }
    }
    pub fn from_name(s: &str) -> Option<Ev> {
        Ev::ALL.iter().copied().find(|e| e.name() == s)
    }
    pub fn idx(self) -> usize {
        self as usize
    }
}

/// A value of one of the five result / placeholder types.
#[derive(Clone, Debug)]
pub enum Val {
    F(f64),
    I(i64),
    D(Decimal),
    C(f64, f64),
    NI(i64),
    NF(f64),
}

fn fbits(x: f64) -> u64 {
    if x.is_nan() {
        0x7ff8_0000_0000_0000
    } else {
        x.to_bits()
    }
}

impl Val {
    /// Bit-level identity with all NaNs identified; Decimal: same value, scale and sign; Number: same variant.
    pub fn same(&self, o: &Val) -> bool {
        match (self, o) {
            (Val::F(a), Val::F(b)) => fbits(*a) == fbits(*b),
            (Val::I(a), Val::I(b)) => a == b,
            (Val::D(a), Val::D(b)) => a.serialize() == b.serialize(),
            (Val::C(a, b), Val::C(c, d)) => fbits(*a) == fbits(*c) && fbits(*b) == fbits(*d),
            (Val::NI(a), Val::NI(b)) => a == b,
            (Val::NF(a), Val::NF(b)) => fbits(*a) == fbits(*b),
            _ => false,
        }
    }
    /// Exact identity including NaN payloads (used by C14's identity clause).
    pub fn identical(&self, o: &Val) -> bool {
        match (self, o) {
            (Val::F(a), Val::F(b)) => a.to_bits() == b.to_bits(),
            (Val::C(a, b), Val::C(c, d)) => a.to_bits() == c.to_bits() && b.to_bits() == d.to_bits(),
            (Val::NF(a), Val::NF(b)) => a.to_bits() == b.to_bits(),
            _ => self.same(o),
        }
    }
    /// Numeric value as a double (Decimal converted through its decimal text).
    pub fn as_f64(&self) -> f64 {
        match self {
            Val::F(a) | Val::NF(a) => *a,
            Val::I(a) | Val::NI(a) => *a as f64,
            Val::D(d) => d.to_string().parse::<f64>().unwrap_or(f64::NAN),
            Val::C(a, _) => *a,
        }
    }
    pub fn is_finite(&self) -> bool {
        match self {
            Val::F(a) | Val::NF(a) => a.is_finite(),
            Val::C(a, b) => a.is_finite() && b.is_finite(),
            _ => true,
        }
    }
    pub fn enc(&self) -> String {
        match self {
            Val::F(a) => format!("f64:{:#018x}", a.to_bits()),
            Val::I(a) => format!("i64:{}", a),
            Val::D(d) => format!("dec:{}{}", if d.is_sign_negative() && d.is_zero() { "-" } else { "" }, d),
            Val::C(a, b) => format!("cpx:{:#018x},{:#018x}", a.to_bits(), b.to_bits()),
            Val::NI(a) => format!("numi:{}", a),
            Val::NF(a) => format!("numf:{:#018x}", a.to_bits()),
        }
    }
    pub fn dec(s: &str) -> Option<Val> {
        let (k, v) = s.split_once(':')?;
        let hx = |t: &str| u64::from_str_radix(t.trim_start_matches("0x"), 16).ok().map(f64::from_bits);
        Some(match k {
            "f64" => Val::F(hx(v)?),
            "i64" => Val::I(v.parse().ok()?),
            "dec" => {
                let neg0 = v.starts_with("-0") && v.trim_start_matches('-').chars().all(|c| c == '0' || c == '.');
                let mut d = Decimal::from_str(v.trim_start_matches('-')).ok()?;
                if v.starts_with('-') || neg0 {
                    d.set_sign_negative(true);
                }
                Val::D(d)
            }
            "cpx" => {
                let (a, b) = v.split_once(',')?;
                Val::C(hx(a)?, hx(b)?)
            }
            "numi" => Val::NI(v.parse().ok()?),
            "numf" => Val::NF(hx(v)?),
            _ => return None,
        })
    }
    /// Human-readable form for evidence samples.
    pub fn show(&self) -> String {
        match self {
            Val::F(a) => format!("{:?}", a),
            Val::I(a) => format!("{}", a),
            Val::D(d) => format!("{}{}", if d.is_sign_negative() && d.is_zero() { "-" } else { "" }, d),
            Val::C(a, b) => format!("{:?}{}{:?}i", a, if b.is_sign_negative() { "" } else { "+" }, b),
            Val::NI(a) => format!("Integer({})", a),
            Val::NF(a) => format!("Float({:?})", a),
        }
    }
    pub fn default_for(ev: Ev) -> Val {
        match ev {
            Ev::F64 => Val::F(0.0),
            Ev::I64 => Val::I(0),
            Ev::Dec => Val::D(Decimal::ZERO),
            Ev::Cpx => Val::C(0.0, 0.0),
            Ev::Num => Val::NI(0),
        }
    }
    pub fn fits(&self, ev: Ev) -> bool {
        matches!(
            (ev, self),
            (Ev::F64, Val::F(_))
                | (Ev::I64, Val::I(_))
                | (Ev::Dec, Val::D(_))
                | (Ev::Cpx, Val::C(_, _))
                | (Ev::Num, Val::NI(_))
                | (Ev::Num, Val::NF(_))
        )
    }
}

#[derive(Clone, Debug)]
pub enum Outcome {
    Ok(Val),
    Err,
    /// message, location
    Panic(String, String),
    Budget(u64),
}

impl Outcome {
    /// Equality of outcomes as the metamorphic properties use it:
    /// both Err, or both Ok with `same` values. Panics / budget hits never equal anything.
    pub fn same(&self, o: &Outcome) -> bool {
        match (self, o) {
            (Outcome::Ok(a), Outcome::Ok(b)) => a.same(b),
            (Outcome::Err, Outcome::Err) => true,
            _ => false,
        }
    }
    pub fn is_ok(&self) -> bool {
        matches!(self, Outcome::Ok(_))
    }
    pub fn is_err(&self) -> bool {
        matches!(self, Outcome::Err)
    }
    /// Panic or budget: belongs to C01 / C02, excluded (and counted) elsewhere.
    pub fn is_abnormal(&self) -> bool {
        matches!(self, Outcome::Panic(_, _) | Outcome::Budget(_))
    }
    pub fn ok(&self) -> Option<&Val> {
        match self {
            Outcome::Ok(v) => Some(v),
            _ => None,
        }
    }
    pub fn show(&self) -> String {
        match self {
            Outcome::Ok(v) => format!("Ok({})", v.show()),
            Outcome::Err => "Err".to_string(),
            Outcome::Panic(m, l) => format!("PANIC({} @ {})", m, l),
            Outcome::Budget(s) => format!("BUDGET({} steps)", s),
        }
    }
    pub fn enc(&self) -> String {
        match self {
            Outcome::Ok(v) => format!("ok {}", v.enc()),
            Outcome::Err => "err".to_string(),
            Outcome::Panic(m, l) => format!("panic {} @ {}", m, l),
            Outcome::Budget(s) => format!("budget {}", s),
        }
    }
    pub fn hash64(&self) -> u64 {
        crate::util::fnv(self.enc().as_bytes())
    }
}

thread_local! {
    static LAST_PANIC: RefCell<Option<(String, String)>> = RefCell::new(None);
}

/// Install the silent panic hook (idempotent).
pub fn install_hook() {
    static ONCE: std::sync::Once = std::sync::Once::new();
    ONCE.call_once(|| {
        panic::set_hook(Box::new(|info| {
            let msg = if let Some(s) = info.payload().downcast_ref::<&str>() {
                s.to_string()
            } else if let Some(s) = info.payload().downcast_ref::<String>() {
                s.clone()
            } else {
                #[cfg(feature = "hooks")]
                let budget = info.payload().downcast_ref::<BudgetExceeded>().is_some();
                #[cfg(not(feature = "hooks"))]
                let budget = false;
                if budget {
                    "BudgetExceeded".to_string()
                } else {
                    "<non-string panic payload>".to_string()
                }
            };
            let loc = info
                .location()
                .map(|l| format!("{}:{}", short_path(l.file()), l.line()))
                .unwrap_or_else(|| "?".to_string());
            LAST_PANIC.with(|p| *p.borrow_mut() = Some((msg, loc)));
        }));
    });
}

/// Stable short form of a source path: registry crates keep `crate-ver/src/..`, std keeps `library/..`,
/// everything else keeps the part from `src/`.
pub fn short_path(f: &str) -> String {
    if let Some(i) = f.find("/registry/src/") {
        let rest = &f[i + "/registry/src/".len()..];
        return rest.split_once('/').map(|x| x.1).unwrap_or(rest).to_string();
    }
    if let Some(i) = f.find("library/") {
        return f[i..].to_string();
    }
    if let Some(i) = f.rfind("/src/") {
        return f[i + 1..].to_string();
    }
    f.to_string()
}

pub const DEFAULT_BUDGET: u64 = 100_000;

pub struct Measured {
    pub outcome: Outcome,
    pub steps: u64,
    pub loop_steps: u64,
}

fn number_to_val(n: Number) -> Val {
    match n {
        Number::Integer(i) => Val::NI(i),
        Number::Float(f) => Val::NF(f),
    }
}

pub fn val_to_number(v: &Val) -> Number {
    match v {
        Val::NI(i) => Number::Integer(*i),
        Val::NF(f) => Number::Float(*f),
        _ => panic!("harness bug: not a Number value"),
    }
}

/// Evaluate `input` with evaluator `ev` and placeholder `ph` under a step budget.
pub fn eval_measured(ev: Ev, input: &str, ph: &Val, budget: u64) -> Measured {
    install_hook();
    debug_assert!(ph.fits(ev));
    let s = input.to_string();
    let ph = ph.clone();
    #[cfg(feature = "hooks")]
    verif_hooks::arm(budget);
    #[cfg(not(feature = "hooks"))]
    let _ = budget;
    let r = panic::catch_unwind(AssertUnwindSafe(move || -> Result<Val, ()> {
        match (ev, ph) {
            (Ev::F64, Val::F(p)) => string_calculator::eval_f64(s, p).map(Val::F).map_err(|_| ()),
            (Ev::I64, Val::I(p)) => string_calculator::eval_i64(s, p).map(Val::I).map_err(|_| ()),
            (Ev::Dec, Val::D(p)) => string_calculator::eval_decimal(s, p).map(Val::D).map_err(|_| ()),
            (Ev::Cpx, Val::C(a, b)) => string_calculator::eval_complex(s, Complex::new(a, b))
                .map(|c| Val::C(c.re, c.im))
                .map_err(|_| ()),
            (Ev::Num, p @ (Val::NI(_) | Val::NF(_))) => {
                string_calculator::eval_number(s, val_to_number(&p)).map(number_to_val).map_err(|_| ())
            }
            _ => panic!("harness bug: placeholder type does not match evaluator"),
        }
    }));
    #[cfg(feature = "hooks")]
    let (loop_steps, steps) = (verif_hooks::loop_steps(), verif_hooks::disarm());
    #[cfg(not(feature = "hooks"))]
    let (loop_steps, steps) = (0u64, 0u64);
    let outcome = match r {
        Ok(Ok(v)) => Outcome::Ok(v),
        Ok(Err(())) => Outcome::Err,
        Err(payload) => {
            #[cfg(feature = "hooks")]
            if let Some(b) = payload.downcast_ref::<BudgetExceeded>() {
                return Measured { outcome: Outcome::Budget(b.steps), steps, loop_steps };
            }
            let _ = &payload;
            let (m, l) = LAST_PANIC.with(|p| p.borrow_mut().take()).unwrap_or(("?".into(), "?".into()));
            Outcome::Panic(m, l)
        }
    };
    Measured { outcome, steps, loop_steps }
}

/// Twice C02's allowance: anything beyond is certainly C02's to report.
pub fn generous_budget(input: &str) -> u64 {
    8192 + 512 * input.chars().count() as u64
}

pub fn eval(ev: Ev, input: &str, ph: &Val) -> Outcome {
    eval_measured(ev, input, ph, generous_budget(input)).outcome
}

/// Number::from(f64) / Number::from(i64) for C18.
pub fn number_from_f64(v: f64) -> Outcome {
    install_hook();
    match panic::catch_unwind(|| Number::from(v)) {
        Ok(n) => Outcome::Ok(number_to_val(n)),
        Err(_) => {
            let (m, l) = LAST_PANIC.with(|p| p.borrow_mut().take()).unwrap_or(("?".into(), "?".into()));
            Outcome::Panic(m, l)
        }
    }
}
pub fn number_from_i64(v: i64) -> Outcome {
    install_hook();
    match panic::catch_unwind(|| Number::from(v)) {
        Ok(n) => Outcome::Ok(number_to_val(n)),
        Err(_) => {
            let (m, l) = LAST_PANIC.with(|p| p.borrow_mut().take()).unwrap_or(("?".into(), "?".into()));
            Outcome::Panic(m, l)
        }
    }
}

/// Display form of a result value, as `format!("{}", v)` gives it (C19 round trip).
pub fn display(v: &Val) -> String {
    match v {
        Val::F(a) => format!("{}", a),
        Val::I(a) => format!("{}", a),
        Val::D(d) => format!("{}", d),
        Val::C(a, b) => format!("{}", Complex::new(*a, *b)),
        Val::NI(a) => format!("{}", a),
        Val::NF(a) => format!("{}", a),
    }
}
