//! Placeholder: small unsigned bigint (filled in with C07/C19).
