//! Small arbitrary-precision integers (no bigint crate is available offline). Used by the exact
//! decimal oracle (C07) and the correct-rounding oracle for literals (C19). Tested against u128 in
//! `selftest`.

use std::cmp::Ordering;

#[derive(Clone, PartialEq, Eq, Debug, Default)]
pub struct BigU {
    /// little-endian 32-bit limbs, no trailing zero limbs
    pub l: Vec<u32>,
}

impl BigU {
    pub fn zero() -> BigU {
        BigU { l: Vec::new() }
    }
    pub fn from_u128(mut v: u128) -> BigU {
        let mut l = Vec::new();
        while v > 0 {
            l.push(v as u32);
            v >>= 32;
        }
        BigU { l }
    }
    pub fn from_u64(v: u64) -> BigU {
        BigU::from_u128(v as u128)
    }
    pub fn to_u128(&self) -> Option<u128> {
        if self.l.len() > 4 {
            return None;
        }
        let mut v: u128 = 0;
        for (i, x) in self.l.iter().enumerate() {
            v |= (*x as u128) << (32 * i);
        }
        Some(v)
    }
    pub fn is_zero(&self) -> bool {
        self.l.is_empty()
    }
    fn trim(&mut self) {
        while let Some(0) = self.l.last() {
            self.l.pop();
        }
    }
    pub fn bits(&self) -> u64 {
        match self.l.last() {
            None => 0,
            Some(top) => (self.l.len() as u64 - 1) * 32 + (32 - top.leading_zeros() as u64),
        }
    }
    pub fn bit(&self, i: u64) -> bool {
        let (w, b) = ((i / 32) as usize, i % 32);
        w < self.l.len() && (self.l[w] >> b) & 1 == 1
    }
    pub fn cmp(&self, o: &BigU) -> Ordering {
        if self.l.len() != o.l.len() {
            return self.l.len().cmp(&o.l.len());
        }
        for i in (0..self.l.len()).rev() {
            if self.l[i] != o.l[i] {
                return self.l[i].cmp(&o.l[i]);
            }
        }
        Ordering::Equal
    }
    pub fn add(&self, o: &BigU) -> BigU {
        let n = self.l.len().max(o.l.len());
        let mut l = Vec::with_capacity(n + 1);
        let mut carry = 0u64;
        for i in 0..n {
            let s = *self.l.get(i).unwrap_or(&0) as u64 + *o.l.get(i).unwrap_or(&0) as u64 + carry;
            l.push(s as u32);
            carry = s >> 32;
        }
        if carry > 0 {
            l.push(carry as u32);
        }
        BigU { l }
    }
    /// self - o, requires self >= o
    pub fn sub(&self, o: &BigU) -> BigU {
        debug_assert!(self.cmp(o) != Ordering::Less);
        let mut l = Vec::with_capacity(self.l.len());
        let mut borrow = 0i64;
        for i in 0..self.l.len() {
            let mut d = self.l[i] as i64 - *o.l.get(i).unwrap_or(&0) as i64 - borrow;
            if d < 0 {
                d += 1 << 32;
                borrow = 1;
            } else {
                borrow = 0;
            }
            l.push(d as u32);
        }
        let mut r = BigU { l };
        r.trim();
        r
    }
    pub fn mul(&self, o: &BigU) -> BigU {
        if self.is_zero() || o.is_zero() {
            return BigU::zero();
        }
        let mut l = vec![0u32; self.l.len() + o.l.len()];
        for i in 0..self.l.len() {
            let mut carry = 0u64;
            let a = self.l[i] as u64;
            for j in 0..o.l.len() {
                let t = a * o.l[j] as u64 + l[i + j] as u64 + carry;
                l[i + j] = t as u32;
                carry = t >> 32;
            }
            let mut k = i + o.l.len();
            while carry > 0 {
                let t = l[k] as u64 + carry;
                l[k] = t as u32;
                carry = t >> 32;
                k += 1;
            }
        }
        let mut r = BigU { l };
        r.trim();
        r
    }
    pub fn mul_small(&self, m: u32) -> BigU {
        let mut l = Vec::with_capacity(self.l.len() + 1);
        let mut carry = 0u64;
        for x in &self.l {
            let t = *x as u64 * m as u64 + carry;
            l.push(t as u32);
            carry = t >> 32;
        }
        if carry > 0 {
            l.push(carry as u32);
        }
        let mut r = BigU { l };
        r.trim();
        r
    }
    pub fn divrem_small(&self, d: u32) -> (BigU, u32) {
        let mut l = vec![0u32; self.l.len()];
        let mut rem = 0u64;
        for i in (0..self.l.len()).rev() {
            let cur = (rem << 32) | self.l[i] as u64;
            l[i] = (cur / d as u64) as u32;
            rem = cur % d as u64;
        }
        let mut r = BigU { l };
        r.trim();
        (r, rem as u32)
    }
    pub fn shl(&self, bits: u64) -> BigU {
        if self.is_zero() {
            return BigU::zero();
        }
        let (w, b) = ((bits / 32) as usize, (bits % 32) as u32);
        let mut l = vec![0u32; w];
        if b == 0 {
            l.extend_from_slice(&self.l);
        } else {
            let mut carry = 0u32;
            for x in &self.l {
                l.push((x << b) | carry);
                carry = x >> (32 - b);
            }
            if carry > 0 {
                l.push(carry);
            }
        }
        BigU { l }
    }
    pub fn shr(&self, bits: u64) -> BigU {
        let (w, b) = ((bits / 32) as usize, (bits % 32) as u32);
        if w >= self.l.len() {
            return BigU::zero();
        }
        let mut l = Vec::with_capacity(self.l.len() - w);
        for i in w..self.l.len() {
            let lo = self.l[i] >> b;
            let hi = if b > 0 && i + 1 < self.l.len() { self.l[i + 1] << (32 - b) } else { 0 };
            l.push(lo | hi);
        }
        let mut r = BigU { l };
        r.trim();
        r
    }
    /// schoolbook shift-subtract division (operands here are a few hundred to a few thousand bits)
    pub fn divrem(&self, d: &BigU) -> (BigU, BigU) {
        assert!(!d.is_zero());
        if self.cmp(d) == Ordering::Less {
            return (BigU::zero(), self.clone());
        }
        if d.l.len() == 1 {
            let (q, r) = self.divrem_small(d.l[0]);
            return (q, BigU::from_u64(r as u64));
        }
        let shift = self.bits() - d.bits();
        let mut rem = self.clone();
        let mut q = BigU { l: vec![0u32; (shift / 32 + 1) as usize] };
        let mut dd = d.shl(shift);
        let mut i = shift as i64;
        while i >= 0 {
            if rem.cmp(&dd) != Ordering::Less {
                rem = rem.sub(&dd);
                q.l[(i / 32) as usize] |= 1 << (i % 32);
            }
            dd = dd.shr(1);
            i -= 1;
        }
        q.trim();
        (q, rem)
    }
    pub fn pow10(n: u32) -> BigU {
        let mut r = BigU::from_u64(1);
        let mut k = n;
        while k >= 9 {
            r = r.mul_small(1_000_000_000);
            k -= 9;
        }
        for _ in 0..k {
            r = r.mul_small(10);
        }
        r
    }
    pub fn from_dec_str(s: &str) -> Option<BigU> {
        let mut r = BigU::zero();
        if s.is_empty() {
            return None;
        }
        for chunk in s.as_bytes().chunks(9) {
            let mut v = 0u32;
            for c in chunk {
                if !c.is_ascii_digit() {
                    return None;
                }
                v = v * 10 + (c - b'0') as u32;
            }
            r = r.mul_small(10u32.pow(chunk.len() as u32)).add(&BigU::from_u64(v as u64));
        }
        Some(r)
    }
    pub fn to_dec_string(&self) -> String {
        if self.is_zero() {
            return "0".into();
        }
        let mut parts = Vec::new();
        let mut cur = self.clone();
        while !cur.is_zero() {
            let (q, r) = cur.divrem_small(1_000_000_000);
            parts.push(r);
            cur = q;
        }
        let mut s = format!("{}", parts.pop().unwrap());
        while let Some(p) = parts.pop() {
            s.push_str(&format!("{:09}", p));
        }
        s
    }
    pub fn is_even(&self) -> bool {
        self.l.first().map(|x| x & 1 == 0).unwrap_or(true)
    }
}

/// Signed big integer.
#[derive(Clone, PartialEq, Eq, Debug, Default)]
pub struct BigI {
    pub neg: bool,
    pub m: BigU,
}

impl BigI {
    pub fn zero() -> BigI {
        BigI { neg: false, m: BigU::zero() }
    }
    pub fn from_i128(v: i128) -> BigI {
        BigI { neg: v < 0, m: BigU::from_u128(v.unsigned_abs()) }
    }
    pub fn from_parts(neg: bool, m: BigU) -> BigI {
        let neg = neg && !m.is_zero();
        BigI { neg, m }
    }
    pub fn is_zero(&self) -> bool {
        self.m.is_zero()
    }
    pub fn neg(&self) -> BigI {
        BigI::from_parts(!self.neg, self.m.clone())
    }
    pub fn abs(&self) -> BigI {
        BigI::from_parts(false, self.m.clone())
    }
    pub fn add(&self, o: &BigI) -> BigI {
        if self.neg == o.neg {
            BigI::from_parts(self.neg, self.m.add(&o.m))
        } else {
            match self.m.cmp(&o.m) {
                Ordering::Equal => BigI::zero(),
                Ordering::Greater => BigI::from_parts(self.neg, self.m.sub(&o.m)),
                Ordering::Less => BigI::from_parts(o.neg, o.m.sub(&self.m)),
            }
        }
    }
    pub fn sub(&self, o: &BigI) -> BigI {
        self.add(&o.neg())
    }
    pub fn mul(&self, o: &BigI) -> BigI {
        BigI::from_parts(self.neg != o.neg, self.m.mul(&o.m))
    }
    pub fn cmp(&self, o: &BigI) -> Ordering {
        match (self.neg, o.neg) {
            (false, true) => Ordering::Greater,
            (true, false) => Ordering::Less,
            (false, false) => self.m.cmp(&o.m),
            (true, true) => o.m.cmp(&self.m),
        }
    }
}

pub fn selftest() {
    // deterministic pseudo-random comparison with u128 arithmetic
    let mut s: u64 = 0x1234_5678_9abc_def0;
    let mut next = || {
        s ^= s << 13;
        s ^= s >> 7;
        s ^= s << 17;
        s
    };
    for _ in 0..20000 {
        let a = (next() as u128) << (next() % 40) | next() as u128 >> (next() % 64);
        let b = ((next() as u128) >> (next() % 60)).max(1);
        let (ba, bb) = (BigU::from_u128(a), BigU::from_u128(b));
        assert_eq!(ba.add(&bb).to_u128(), a.checked_add(b));
        if a >= b {
            assert_eq!(ba.sub(&bb).to_u128(), Some(a - b));
        }
        if let Some(p) = a.checked_mul(b) {
            assert_eq!(ba.mul(&bb).to_u128(), Some(p));
        }
        let (q, r) = ba.divrem(&bb);
        assert_eq!(q.to_u128(), Some(a / b));
        assert_eq!(r.to_u128(), Some(a % b));
        let sh = next() % 30;
        if a.leading_zeros() as u64 > sh {
            assert_eq!(ba.shl(sh).to_u128(), Some(a << sh));
        }
        assert_eq!(ba.shr(sh).to_u128(), Some(a >> sh));
        assert_eq!(BigU::from_dec_str(&a.to_string()).unwrap(), ba);
        assert_eq!(ba.to_dec_string(), a.to_string());
        assert_eq!(ba.bits(), 128 - a.leading_zeros() as u64);
    }
    // multi-limb division identity: (q*d + r == n, r < d)
    for _ in 0..2000 {
        let n = BigU::from_u128(next() as u128 * next() as u128).mul(&BigU::from_u128(next() as u128 * next() as u128)).add(&BigU::from_u64(next()));
        let d = BigU::from_u128((next() as u128) << (next() % 64) | 1).mul(&BigU::from_u64(next() | 1));
        let (q, r) = n.divrem(&d);
        assert!(r.cmp(&d) == Ordering::Less);
        assert_eq!(q.mul(&d).add(&r), n);
    }
    println!("big.rs selftest ok");
}
