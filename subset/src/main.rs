//! C17 probe: built once per feature subset. Reads a case file (one case per line:
//! `<evaluator>\t<placeholder-encoding>\t<input-json-string>`) and prints one bit-exact outcome line per
//! case whose evaluator is enabled in this build.

use std::io::{BufRead, Write};
use std::panic::{self, AssertUnwindSafe};
use string_calculator::verif_hooks;

fn hx(t: &str) -> f64 {
    f64::from_bits(u64::from_str_radix(t.trim_start_matches("0x"), 16).unwrap())
}

fn unescape(s: &str) -> String {
    // minimal JSON string decoder ("..." with \" \\ \n \r \t \uXXXX incl. surrogate pairs)
    let cs: Vec<char> = s.trim().trim_matches('"').chars().collect();
    let mut out = String::new();
    let mut i = 0;
    while i < cs.len() {
        if cs[i] == '\\' && i + 1 < cs.len() {
            i += 1;
            match cs[i] {
                'n' => out.push('\n'),
                'r' => out.push('\r'),
                't' => out.push('\t'),
                'b' => out.push('\u{8}'),
                'f' => out.push('\u{c}'),
                'u' => {
                    let h: String = cs[i + 1..i + 5].iter().collect();
                    let mut cp = u32::from_str_radix(&h, 16).unwrap();
                    i += 4;
                    if (0xD800..0xDC00).contains(&cp) && i + 6 < cs.len() && cs[i + 1] == '\\' && cs[i + 2] == 'u' {
                        let h2: String = cs[i + 3..i + 7].iter().collect();
                        let lo = u32::from_str_radix(&h2, 16).unwrap();
                        cp = 0x10000 + ((cp - 0xD800) << 10) + (lo - 0xDC00);
                        i += 6;
                    }
                    out.push(char::from_u32(cp).unwrap_or('\u{fffd}'));
                }
                c => out.push(c),
            }
        } else {
            out.push(cs[i]);
        }
        i += 1;
    }
    out
}

fn guarded<T>(f: impl FnOnce() -> Result<T, ()>, show: impl Fn(T) -> String) -> String {
    verif_hooks::arm(200_000);
    let r = panic::catch_unwind(AssertUnwindSafe(f));
    verif_hooks::disarm();
    match r {
        Ok(Ok(v)) => format!("ok {}", show(v)),
        Ok(Err(())) => "err".to_string(),
        Err(_) => "abnormal".to_string(),
    }
}

fn run(ev: &str, ph: &str, input: String) -> Option<String> {
    let (_k, v) = ph.split_once(':')?;
    match ev {
        #[cfg(feature = "eval_f64")]
        "f64" => {
            let p = hx(v);
            Some(guarded(|| string_calculator::eval_f64(input, p).map_err(|_| ()), |x| format!("f64:{:#018x}", x.to_bits())))
        }
        #[cfg(feature = "eval_i64")]
        "i64" => {
            let p: i64 = v.parse().ok()?;
            Some(guarded(|| string_calculator::eval_i64(input, p).map_err(|_| ()), |x| format!("i64:{}", x)))
        }
        #[cfg(feature = "eval_decimal")]
        "decimal" => {
            use std::str::FromStr;
            let mut d = rust_decimal::Decimal::from_str(v.trim_start_matches('-')).ok()?;
            if v.starts_with('-') {
                d.set_sign_negative(true);
            }
            Some(guarded(|| string_calculator::eval_decimal(input, d).map_err(|_| ()), |x| format!("dec:{}{}/{}", if x.is_sign_negative() { "-" } else { "" }, x.mantissa().unsigned_abs(), x.scale())))
        }
        #[cfg(feature = "eval_complex")]
        "complex" => {
            let (a, b) = v.split_once(',')?;
            let p = num_complex::Complex::new(hx(a), hx(b));
            Some(guarded(|| string_calculator::eval_complex(input, p).map_err(|_| ()), |x| format!("cpx:{:#018x},{:#018x}", x.re.to_bits(), x.im.to_bits())))
        }
        #[cfg(feature = "eval_number")]
        "numberfrom" => {
            // Number::from(f64) on a raw bit pattern (C18 through the feature subsets)
            use string_calculator::Number;
            let bits = u64::from_str_radix(input.trim_start_matches("0x"), 16).ok()?;
            Some(match Number::from(f64::from_bits(bits)) {
                Number::Integer(i) => format!("ok numi:{}", i),
                Number::Float(f) => format!("ok numf:{:#018x}", f.to_bits()),
            })
        }
        #[cfg(feature = "eval_number")]
        "number" => {
            use string_calculator::Number;
            let p = if ph.starts_with("numi:") { Number::Integer(v.parse().ok()?) } else { Number::Float(hx(v)) };
            Some(guarded(
                || string_calculator::eval_number(input, p).map_err(|_| ()),
                |x| match x {
                    Number::Integer(i) => format!("numi:{}", i),
                    Number::Float(f) => format!("numf:{:#018x}", f.to_bits()),
                },
            ))
        }
        _ => None,
    }
}

fn main() {
    panic::set_hook(Box::new(|_| {}));
    let path = std::env::args().nth(1).expect("case file");
    let f = std::io::BufReader::new(std::fs::File::open(path).expect("open case file"));
    let out = std::io::stdout();
    let mut out = std::io::BufWriter::new(out.lock());
    // ParseError is exported in every non-empty subset
    let _e: Option<string_calculator::ParseError> = None;
    for (idx, line) in f.lines().enumerate() {
        let line = line.unwrap();
        let mut it = line.splitn(3, '\t');
        let (ev, ph, js) = match (it.next(), it.next(), it.next()) {
            (Some(a), Some(b), Some(c)) => (a, b, c),
            _ => continue,
        };
        if let Some(o) = run(ev, ph, unescape(js)) {
            writeln!(out, "{}\t{}", idx, o).unwrap();
        }
    }
}
